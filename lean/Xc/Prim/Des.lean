/-
  lib/alg-des.c: table-driven DES with the crypt(3) salt perturbation and iteration count.
  All ten tables and `key_shifts` come from the tree (Gen.DesTables).
-/
import Xc.Prim.Bits
import Xc.Gen.DesTables

namespace Xc.Des
open Xc

structure Ctx where
  keysl : Array UInt32
  keysr : Array UInt32
  saltbits : UInt32
  deriving Inhabited

def tbl (t : List (List UInt32)) : Array (Array UInt32) := (t.map List.toArray).toArray

def ipMaskL := tbl Gen.des_ip_maskl
def ipMaskR := tbl Gen.des_ip_maskr
def fpMaskL := tbl Gen.des_fp_maskl
def fpMaskR := tbl Gen.des_fp_maskr
def keyPermL := tbl Gen.des_key_perm_maskl
def keyPermR := tbl Gen.des_key_perm_maskr
def compL := tbl Gen.des_comp_maskl
def compR := tbl Gen.des_comp_maskr
def psbox := tbl Gen.des_psbox
/-- `m_sbox[i]` flattened to 4096 entries -/
def mSbox : Array (Array UInt8) := (Gen.des_m_sbox.map fun rows => (rows.flatMap id).toArray).toArray
def keyShifts : Array UInt8 := Gen.des_key_shifts.toArray

def look (t : Array (Array UInt32)) (i : Nat) (idx : UInt32) : UInt32 := (t[i]!)[idx.toNat]!

/-- OR of eight table lookups indexed by the bytes (or 7-bit groups) of two words -/
def or8 (t : Array (Array UInt32)) (ix : Fin 8 → UInt32) : UInt32 :=
  look t 0 (ix 0) ||| look t 1 (ix 1) ||| look t 2 (ix 2) ||| look t 3 (ix 3) |||
  look t 4 (ix 4) ||| look t 5 (ix 5) ||| look t 6 (ix 6) ||| look t 7 (ix 7)

def bytesOf (a b : UInt32) : Fin 8 → UInt32 := fun i =>
  match i.val with
  | 0 => (a >>> 24) &&& 0xff | 1 => (a >>> 16) &&& 0xff | 2 => (a >>> 8) &&& 0xff | 3 => a &&& 0xff
  | 4 => (b >>> 24) &&& 0xff | 5 => (b >>> 16) &&& 0xff | 6 => (b >>> 8) &&& 0xff | _ => b &&& 0xff

def sevenOfKey (a b : UInt32) : Fin 8 → UInt32 := fun i =>
  match i.val with
  | 0 => (a >>> 25) &&& 0x7f | 1 => (a >>> 17) &&& 0x7f | 2 => (a >>> 9) &&& 0x7f | 3 => (a >>> 1) &&& 0x7f
  | 4 => (b >>> 25) &&& 0x7f | 5 => (b >>> 17) &&& 0x7f | 6 => (b >>> 9) &&& 0x7f | _ => (b >>> 1) &&& 0x7f

def sevenOfT (a b : UInt32) : Fin 8 → UInt32 := fun i =>
  match i.val with
  | 0 => (a >>> 21) &&& 0x7f | 1 => (a >>> 14) &&& 0x7f | 2 => (a >>> 7) &&& 0x7f | 3 => a &&& 0x7f
  | 4 => (b >>> 21) &&& 0x7f | 5 => (b >>> 14) &&& 0x7f | 6 => (b >>> 7) &&& 0x7f | _ => b &&& 0x7f

/-- `des_set_key` -/
def setKey (key : Bytes) : Array UInt32 × Array UInt32 := Id.run do
  let raw0 := be32 key 0; let raw1 := be32 key 4
  let k0 := or8 keyPermL (sevenOfKey raw0 raw1)
  let k1 := or8 keyPermR (sevenOfKey raw0 raw1)
  let mut shifts : UInt32 := 0
  let mut kl : Array UInt32 := Array.mkEmpty 16
  let mut kr : Array UInt32 := Array.mkEmpty 16
  for round in [0:16] do
    shifts := shifts + (keyShifts[round]!).toUInt32
    let t0 := (k0 <<< shifts) ||| (k0 >>> (28 - shifts))
    let t1 := (k1 <<< shifts) ||| (k1 >>> (28 - shifts))
    kl := kl.push (or8 compL (sevenOfT t0 t1))
    kr := kr.push (or8 compR (sevenOfT t0 t1))
  return (kl, kr)

/-- `des_set_salt` -/
def saltBits (salt : Nat) : UInt32 :=
  ((List.range 24).foldl (fun (acc : Nat) i => if salt / 2 ^ i % 2 = 1 then acc + 2 ^ (23 - i) else acc) 0).toUInt32

def mkCtx (key : Bytes) (salt : Nat) : Ctx :=
  let (kl, kr) := setKey key
  { keysl := kl, keysr := kr, saltbits := saltBits salt }

/-- one Feistel round with round keys (kl, kr) -/
def round (saltbits : UInt32) (l r kl kr : UInt32) : UInt32 × UInt32 :=
  let r48l := ((r &&& 0x00000001) <<< 23) ||| ((r &&& 0xf8000000) >>> 9) ||| ((r &&& 0x1f800000) >>> 11)
              ||| ((r &&& 0x01f80000) >>> 13) ||| ((r &&& 0x001f8000) >>> 15)
  let r48r := ((r &&& 0x0001f800) <<< 7) ||| ((r &&& 0x00001f80) <<< 5) ||| ((r &&& 0x000001f8) <<< 3)
              ||| ((r &&& 0x0000001f) <<< 1) ||| ((r &&& 0x80000000) >>> 31)
  let f := (r48l ^^^ r48r) &&& saltbits
  let r48l := r48l ^^^ f ^^^ kl
  let r48r := r48r ^^^ f ^^^ kr
  let f := (psbox[0]!)[((mSbox[0]!)[(r48l >>> 12).toNat]!).toNat]! ||| (psbox[1]!)[((mSbox[1]!)[(r48l &&& 0xfff).toNat]!).toNat]!
           ||| (psbox[2]!)[((mSbox[2]!)[(r48r >>> 12).toNat]!).toNat]! ||| (psbox[3]!)[((mSbox[3]!)[(r48r &&& 0xfff).toNat]!).toNat]!
  (r, f ^^^ l)

/-- the sixteen round keys in the order the C code walks them (`kl++` / `kl--`) -/
def keyList (c : Ctx) (decrypt : Bool) : List (UInt32 × UInt32) :=
  let ks := (List.range 16).map fun i => (c.keysl[i]!, c.keysr[i]!)
  if decrypt then ks.reverse else ks

/-- one DES pass: sixteen rounds, then the undoing of the last swap (`r = l; l = f`) -/
def pass (saltbits : UInt32) (ks : List (UInt32 × UInt32)) (p : UInt32 × UInt32) : UInt32 × UInt32 :=
  let q := ks.foldl (fun (p : UInt32 × UInt32) k => round saltbits p.1 p.2 k.1 k.2) p
  (q.2, q.1)

/-- `f` applied `n` times -/
def iter {α : Type} (f : α → α) : Nat → α → α
  | 0, a => a
  | n + 1, a => iter f n (f a)

/-- `des_crypt_block (ctx, out, in, count, decrypt)` -/
def cryptBlock (c : Ctx) (input : Bytes) (count : Nat) (decrypt : Bool) : Bytes :=
  let count := if count = 0 then 1 else count
  let lin := be32 input 0; let rin := be32 input 4
  let p0 := (or8 ipMaskL (bytesOf lin rin), or8 ipMaskR (bytesOf lin rin))
  let p := iter (pass c.saltbits (keyList c decrypt)) count p0
  toBe32 (or8 fpMaskL (bytesOf p.1 p.2)) ++ toBe32 (or8 fpMaskR (bytesOf p.1 p.2))

/-- `des_set_key; des_set_salt; des_crypt_block` on the all-zero block (des_gen_hash's raw output) -/
def desHash (key : Bytes) (salt count : Nat) : Bytes :=
  cryptBlock (mkCtx key salt) (List.replicate 8 0) count false

/-- crypt_bsdicrypt_rn: fold the phrase into one key, then hash -/
def bsdiCore (phrase : Bytes) (salt count : Nat) : Bytes :=
  let rec fold : Nat → Bytes → Bytes → Bytes      -- fuel, remaining phrase, pkbuf → final key
    | 0, _, pk => pk
    | fuel + 1, p, pk =>
      let keybuf := (List.range 8).map fun i => pk.getD i 0 ^^^ ((p.getD i 0) <<< (1 : UInt8))
      let rest := p.drop 8
      if rest.isEmpty then keybuf
      else fold fuel rest (cryptBlock (mkCtx keybuf 0) keybuf 1 false)
  let key := fold (phrase.length / 8 + 2) phrase (List.replicate 8 0)
  cryptBlock (mkCtx key salt) (List.replicate 8 0) count false

end Xc.Des

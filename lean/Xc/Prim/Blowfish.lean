/-
  crypt-bcrypt.c: `BF_set_key` (with the $2x$ sign-extension bug mode and the $2a$ safety measure)
  and `BF_crypt` (eksblowfish, then 64 encryptions of "OrpheanBeholderScryDoubt"), in the order the
  C code performs them.  Initial P/S boxes and the magic words come from the tree (Gen.BF_*).
-/
import Xc.Prim.Bits
import Xc.Gen.Words
import Xc.Gen.Alphabets

namespace Xc.Bf
open Xc

structure St where
  P : Array UInt32      -- 18
  S : Array UInt32      -- 4 × 256, flattened
  deriving Inhabited

def initS : Array UInt32 := (Gen.BF_init_S0 ++ Gen.BF_init_S1 ++ Gen.BF_init_S2 ++ Gen.BF_init_S3).toArray
def initP : Array UInt32 := Gen.BF_init_P.toArray
def magic : Array UInt32 := Gen.BF_magic_w.toArray

@[inline] def feistel (S : Array UInt32) (x : UInt32) : UInt32 :=
  ((S[(x >>> 24).toNat]! + S[256 + ((x >>> 16) &&& 0xff).toNat]!) ^^^ S[512 + ((x >>> 8) &&& 0xff).toNat]!)
    + S[768 + (x &&& 0xff).toNat]!

/-- `BF_ENCRYPT` -/
def encrypt (st : St) (L R : UInt32) : UInt32 × UInt32 := Id.run do
  let mut l := L ^^^ st.P[0]!
  let mut r := R
  for i in [0:8] do
    r := r ^^^ st.P[2 * i + 1]! ^^^ feistel st.S l
    l := l ^^^ st.P[2 * i + 2]! ^^^ feistel st.S r
  -- after 16 rounds: tmp4 = R; R = L; L = tmp4 ^ P[17]   (the last `l ^= P[16]`‑style xor above used P[16])
  return (r ^^^ st.P[17]!, l)

/-- the bytes `BF_set_key` reads: the phrase and its terminator, cyclically (`kz` = phrase ++ [0]); `k` bytes from position `pos` -/
def keyStream (kz : Bytes) : Nat → Nat → Bytes
  | 0, _ => []
  | k + 1, pos =>
    let c := cat kz pos
    let pos1 := if c = 0 then 0 else pos + 1
    let pos2 := if pos1 ≥ kz.length then 0 else pos1
    c :: keyStream kz k pos2

/-- `BF_set_key` on the 72 bytes it reads -/
def setKeyFrom (ks : Array UInt8) (flags : Nat) : Array UInt32 × Array UInt32 := Id.run do
  let bug := flags % 2 = 1
  let safety : UInt32 := if flags / 2 % 2 = 1 then 0x10000 else 0
  let mut sign : UInt32 := 0
  let mut diff : UInt32 := 0
  let mut expanded : Array UInt32 := Array.mkEmpty 18
  let mut initial : Array UInt32 := Array.mkEmpty 18
  for i in [0:18] do
    let mut t0 : UInt32 := 0
    let mut t1 : UInt32 := 0
    for j in [0:4] do
      let c : UInt8 := ks[4 * i + j]!
      t0 := (t0 <<< 8) ||| c.toUInt32
      let sx : UInt32 := if c ≥ 0x80 then 0xffffff00 ||| c.toUInt32 else c.toUInt32
      t1 := (t1 <<< 8) ||| sx
      if j ≠ 0 then sign := sign ||| (t1 &&& 0x80)
    diff := diff ||| (t0 ^^^ t1)
    let t := if bug then t1 else t0
    expanded := expanded.push t
    initial := initial.push (initP[i]! ^^^ t)
  diff := diff ||| (diff >>> 16)
  diff := diff &&& 0xffff
  diff := diff + 0xffff
  sign := sign <<< 9
  sign := sign &&& (~~~ diff) &&& safety
  initial := initial.set! 0 (initial[0]! ^^^ sign)
  return (expanded, initial)

/-- `BF_set_key (key, expanded, initial, flags)`; `key` is the NUL-free phrase (the C reads its terminator too):
    18 words of 4 bytes taken cyclically from the phrase and its terminator -/
def setKey (key : Bytes) (flags : Nat) : Array UInt32 × Array UInt32 :=
  setKeyFrom (keyStream (key ++ [0]) 72 0).toArray flags

/-- `BF_body ()`: re-key P then S by chained encryption of the running (L, R), starting from zero -/
def body (st : St) : St := Id.run do
  let mut s := st
  let mut L : UInt32 := 0
  let mut R : UInt32 := 0
  for i in [0:9] do
    let (l, r) := encrypt s L R
    L := l; R := r
    s := { s with P := (s.P.set! (2 * i) L).set! (2 * i + 1) R }
  for i in [0:512] do
    let (l, r) := encrypt s L R
    L := l; R := r
    s := { s with S := (s.S.set! (2 * i) L).set! (2 * i + 1) R }
  return s

/-- `BF_crypt` up to the raw 24 output bytes (of which 23 are encoded) -/
def bcryptRaw (flags cost : Nat) (salt16 key : Bytes) : Bytes := Id.run do
  let salt : Array UInt32 := #[be32 salt16 0, be32 salt16 4, be32 salt16 8, be32 salt16 12]
  let (expanded, initial) := setKey key flags
  let mut st : St := { P := initial, S := initS }
  let mut L : UInt32 := 0
  let mut R : UInt32 := 0
  for i in [0:9] do
    L := L ^^^ salt[(2 * i) % 4 / 2 * 2]!
    R := R ^^^ salt[(2 * i) % 4 / 2 * 2 + 1]!
    let (l, r) := encrypt st L R
    L := l; R := r
    st := { st with P := (st.P.set! (2 * i) L).set! (2 * i + 1) R }
  for k in [0:256] do
    L := L ^^^ salt[2]!; R := R ^^^ salt[3]!
    let (l, r) := encrypt st L R
    L := l; R := r
    st := { st with S := (st.S.set! (4 * k) L).set! (4 * k + 1) R }
    L := L ^^^ salt[0]!; R := R ^^^ salt[1]!
    let (l, r) := encrypt st L R
    L := l; R := r
    st := { st with S := (st.S.set! (4 * k + 2) L).set! (4 * k + 3) R }
  for _ in [0:2 ^ cost] do
    let mut p := st.P
    for i in [0:18] do p := p.set! i (p[i]! ^^^ expanded[i]!)
    st := body { st with P := p }
    let mut q := st.P
    for i in [0:16] do q := q.set! i (q[i]! ^^^ salt[i % 4]!)
    q := q.set! 16 (q[16]! ^^^ salt[0]!)
    q := q.set! 17 (q[17]! ^^^ salt[1]!)
    st := body { st with P := q }
  let mut out : Bytes := []
  for i in [0:3] do
    let mut l := magic[2 * i]!
    let mut r := magic[2 * i + 1]!
    for _ in [0:64] do
      let (l', r') := encrypt st l r
      l := l'; r := r'
    out := out ++ toBe32 l ++ toBe32 r
  return out

/-- the 23 bytes that `BF_encode` turns into the 31 hash characters -/
def bcryptCore (flags cost : Nat) (salt16 key : Bytes) : Bytes := (bcryptRaw flags cost salt16 key).take 23

end Xc.Bf

/-
  The computational cores of the digest-based methods, written in the shape of the C code
  (same sequence of Init/Update/Final calls): md5crypt, sha256crypt/sha512crypt (Drepper),
  SunMD5, sha1crypt (PBKDF1 with HMAC-SHA1), NT.
-/
import Xc.Prim.Sha256
import Xc.Prim.Sha512
import Xc.Prim.Sha1
import Xc.Prim.Md5
import Xc.Gen.Alphabets
import Xc.Gen.Consts

namespace Xc.Cores
open Xc MD

/-- run a list of `Update` calls on a fresh context and finalise -/
def digestOf {σ} (A : Alg σ) (chunks : List Bytes) : Bytes :=
  final A (chunks.foldl (update A) (init A))

/-! ### md5crypt (crypt-md5.c) -/

def md5cryptCore (phrase salt : Bytes) : Bytes :=
  let A := Md5.alg
  let alt := digestOf A [phrase, salt, phrase]
  -- "Add for any character in the phrase one byte of the alternate sum."
  let rec altChunks : Nat → Nat → List Bytes
    | 0, _ => []
    | fuel + 1, cnt => if cnt > 16 then alt :: altChunks fuel (cnt - 16) else [alt.take cnt]
  -- "for every 1 bit in the phrase the first 0 is added to the buffer, for every 0 bit the first character of the phrase"
  let rec bitChunks : Nat → Nat → List Bytes
    | 0, _ => []
    | fuel + 1, cnt => if cnt > 0 then (if cnt % 2 = 1 then [0] else phrase.take 1) :: bitChunks fuel (cnt / 2) else []
  let r0 := digestOf A ([phrase, Gen.md5_salt_prefix, salt] ++ altChunks (phrase.length + 1) phrase.length
                        ++ bitChunks (phrase.length + 1) phrase.length)
  (List.range 1000).foldl (fun result cnt =>
    digestOf A ((if cnt % 2 = 1 then [phrase] else [result]) ++ (if cnt % 3 ≠ 0 then [salt] else [])
                ++ (if cnt % 7 ≠ 0 then [phrase] else []) ++ (if cnt % 2 = 1 then [result] else [phrase]))) r0

/-! ### sha256crypt / sha512crypt (crypt-sha256.c, crypt-sha512.c) -/

/-- `*_process_recycled_bytes (block, len, ctx)`: `len` bytes of `block` repeated indefinitely,
    as the sequence of Update calls the C makes -/
def recycled (block : Bytes) (hlen len : Nat) : List Bytes :=
  List.replicate (len / hlen) block ++ [block.take (len % hlen)]

def shaCryptCore {σ} (A : Alg σ) (hlen : Nat) (phrase salt : Bytes) (rounds : Nat) : Bytes :=
  let alt := digestOf A [phrase, salt, phrase]
  let rec altChunks : Nat → Nat → List Bytes
    | 0, _ => []
    | fuel + 1, cnt => if cnt > hlen then alt :: altChunks fuel (cnt - hlen) else [alt.take cnt]
  let rec bitChunks : Nat → Nat → List Bytes
    | 0, _ => []
    | fuel + 1, cnt => if cnt > 0 then (if cnt % 2 = 1 then alt else phrase) :: bitChunks fuel (cnt / 2) else []
  let r0 := digestOf A ([phrase, salt] ++ altChunks (phrase.length + 1) phrase.length ++ bitChunks (phrase.length + 1) phrase.length)
  let pBytes := digestOf A (List.replicate phrase.length phrase)
  let sBytes := digestOf A (List.replicate (16 + (r0.getD 0 0).toNat) salt)
  let P := recycled pBytes hlen phrase.length
  let S := recycled sBytes hlen salt.length
  (List.range rounds).foldl (fun result cnt =>
    digestOf A ((if cnt % 2 = 1 then P else [result]) ++ (if cnt % 3 ≠ 0 then S else [])
                ++ (if cnt % 7 ≠ 0 then P else []) ++ (if cnt % 2 = 1 then [result] else P))) r0

def sha256cryptCore := shaCryptCore Sha256.alg 32
def sha512cryptCore := shaCryptCore Sha512.alg 64

/-! ### SunMD5 (crypt-sunmd5.c) -/

def getNthBit (dg : Bytes) (n : Nat) : Nat :=
  ((dg.getD (n % 128 / 8) 0).toNat / 2 ^ (n % 128 % 8)) % 2

def muffetCoinToss (dg : Bytes) (round : Nat) : Bool :=
  let d (i : Nat) := (dg.getD (i % 16) 0).toNat
  let half (off : Nat) : Nat :=
    (List.range 8).foldl (fun acc i =>
      let a := d (i + off); let b := d (i + off + 3)
      let r := a / 2 ^ (b % 5)
      let v := d r
      let v := if (b / 2 ^ (a % 8)) % 2 = 1 then v / 2 else v
      acc + getNthBit dg v * 2 ^ i) 0
  let x := half 0; let y := half 8
  let x := if getNthBit dg round = 1 then x / 2 else x
  let y := if getNthBit dg (round + 64) = 1 then y / 2 else y
  getNthBit dg x != getNthBit dg y

def sunmd5Core (phrase pre : Bytes) (nrounds : Nat) : Bytes :=
  let A := Md5.alg
  let dg0 := digestOf A [phrase, pre]
  (List.range nrounds).foldl (fun dg i =>
    digestOf A ([dg] ++ (if muffetCoinToss dg i then [Gen.hamlet_quotation] else []) ++ [toDec i])) dg0

/-! ### HMAC-SHA1 and sha1crypt (alg-hmac-sha1.c, crypt-pbkdf1-sha1.c) -/

def hmacGen {σ} (A : Alg σ) (key text : Bytes) : Bytes :=
  let key := if key.length > A.block then hash A key else key
  let kpad (p : UInt8) := (List.range A.block).map fun i => p ^^^ key.getD i 0
  let inner := digestOf A [kpad 0x36, text]
  digestOf A [kpad 0x5c, inner]

def hmacSha1 (key text : Bytes) : Bytes := hmacGen Sha1.alg key text

def sha1cryptCore (phrase salt : Bytes) (iterations : Nat) : Bytes :=
  let msg0 := salt ++ [36, 115, 104, 97, 49, 36] ++ toDec iterations
  let h0 := hmacSha1 phrase msg0
  (List.range (iterations - 1)).foldl (fun h _ => hmacSha1 phrase h) h0

/-! ### NT (crypt-nthash.c) -/

def ntCore (phrase : Bytes) : Bytes :=
  digestOf Md4.alg [phrase.flatMap fun c => [c, 0]]

end Xc.Cores

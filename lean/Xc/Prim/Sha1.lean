/- SHA-1 (FIPS 180-4 §6.1); the initial state is taken from the tree (Gen.sha1_iv). -/
import Xc.Prim.MD
import Xc.Prim.Bits
import Xc.Gen.Words
namespace Xc.Sha1
open Xc

abbrev State := Array UInt32
def iv : State := Gen.sha1_iv.toArray

def schedule (block : Bytes) : Array UInt32 := Id.run do
  let mut w : Array UInt32 := Array.mkEmpty 80
  let blk := block.toArray
  for i in [0:16] do w := w.push (abe32 blk (4 * i))
  for i in [16:80] do
    w := w.push (rotl32 (w[i - 3]! ^^^ w[i - 8]! ^^^ w[i - 14]! ^^^ w[i - 16]!) 1)
  return w

def compress (st : State) (block : Bytes) : State := Id.run do
  let w := schedule block
  let mut a := st[0]!; let mut b := st[1]!; let mut c := st[2]!; let mut d := st[3]!; let mut e := st[4]!
  for i in [0:80] do
    let (f, k) : UInt32 × UInt32 :=
      if i < 20 then ((b &&& c) ||| ((~~~ b) &&& d), 0x5A827999)
      else if i < 40 then (b ^^^ c ^^^ d, 0x6ED9EBA1)
      else if i < 60 then ((b &&& c) ||| (b &&& d) ||| (c &&& d), 0x8F1BBCDC)
      else (b ^^^ c ^^^ d, 0xCA62C1D6)
    let t := rotl32 a 5 + f + e + k + w[i]!
    e := d; d := c; c := rotl32 b 30; b := a; a := t
  return #[st[0]! + a, st[1]! + b, st[2]! + c, st[3]! + d, st[4]! + e]

def alg : MD.Alg State :=
  { block := 64, lenBytes := 8, bigEndian := true, iv := iv, compress := compress,
    out := fun s => s.toList.flatMap toBe32 }

def hash (m : Bytes) : Bytes := MD.hash alg m

end Xc.Sha1

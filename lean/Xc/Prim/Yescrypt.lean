/-
  yescrypt / scrypt KDF (alg-yescrypt-opt.c), modelled at the level of the algorithm the
  optimised C code implements (Salsa20/8 and Salsa20/2 cores in "SIMD-shuffled" word order,
  BlockMix_salsa8, pwxform with its three rotating S-boxes, SMix1, SMix2, SMix, the pre-hash
  and the SCRAM-style finalisation), plus HMAC-SHA256 and PBKDF2-HMAC-SHA256 (alg-sha256.c).
  No ROM (`shared == NULL`), which is all libxcrypt uses.
-/
import Xc.Prim.Cores
import Xc.Crypt

namespace Xc.Yes
open Xc

abbrev Blk := Array UInt32     -- 16·2r words, in shuffled order

def hmacSha256 (key text : Bytes) : Bytes := Cores.hmacGen Sha256.alg key text

/-- RFC 8018 PBKDF2 with HMAC-SHA256 -/
def pbkdf2Sha256 (pw salt : Bytes) (c dkLen : Nat) : Bytes :=
  let nblk := (dkLen + 31) / 32
  let blocks := (List.range nblk).map fun i =>
    let u1 := hmacSha256 pw (salt ++ toBe32 (i + 1).toUInt32)
    let (t, _) := (List.range (c - 1)).foldl (fun (acc : Bytes × Bytes) _ =>
      let u := hmacSha256 pw acc.2
      (List.zipWith (· ^^^ ·) acc.1 u, u)) (u1, u1)
    t
  (blocks.flatMap id).take dkLen

/-- `SHA256_Pad_Almost`: 0x80, zeros up to the length field, the bit count; the buffer then is one whole block
    (the C function refuses - and the caller falls back to the generic path - when fewer than `lenBytes` + 1 bytes are free) -/
def padAlmost {σ} (A : MD.Alg σ) (buf : Bytes) (count : Nat) : Bytes :=
  buf ++ 0x80 :: List.replicate (A.block - A.lenBytes - 1 - buf.length) 0 ++ MD.lenField A (8 * count)

def hmacKey {σ} (A : MD.Alg σ) (pw : Bytes) : Bytes := if pw.length > A.block then MD.hash A pw else pw
def kpad {σ} (A : MD.Alg σ) (key : Bytes) (p : UInt8) : Bytes := (List.range A.block).map fun i => p ^^^ key.getD i 0

/-- the i-th output block as the `c == 1` fast path of `PBKDF2_SHA256` computes it: both contexts are padded once,
    per block only the four counter bytes inside the inner buffer change, and each HMAC costs two compressions -/
def fastBlock {σ} (A : MD.Alg σ) (hlen : Nat) (pw salt : Bytes) (i : Nat) : Bytes :=
  let key := hmacKey A pw
  let ictx0 := MD.update A (MD.update A (MD.init A) (kpad A key 0x36)) salt
  let octx := MD.update A (MD.init A) (kpad A key 0x5c)
  let old := ictx0.count % A.block
  let ictx := MD.update A ictx0 [0, 0, 0, 0]
  let ibuf := padAlmost A ictx.buf ictx.count
  let otail := (padAlmost A (List.replicate hlen 0) (octx.count + hlen)).drop hlen
  let ib := ibuf.take old ++ toBe32 (i + 1).toUInt32 ++ ibuf.drop (old + 4)
  let inner := A.out (A.compress ictx.st ib)
  A.out (A.compress octx.st (inner ++ otail))

/-- `PBKDF2_SHA256` as written in alg-sha256.c: for c = 1, whole 32-byte blocks and a salt whose last partial block is at most 51 bytes
    the fast path - unless the four counter bytes wrapped the buffer or `SHA256_Pad_Almost` found no room, when the code jumps back to
    `generic:` ("can't happen") - and the generic loop otherwise.  `pbkdf2Impl_eq` (Lemmas/Pbkdf2.lean): it is `pbkdf2Sha256`. -/
def pbkdf2Impl (pw salt : Bytes) (c dkLen : Nat) : Bytes :=
  if c = 1 ∧ dkLen % 32 = 0 ∧ salt.length % 64 ≤ 51 then
    let old := (64 + salt.length) % 64
    let r := (64 + salt.length + 4) % 64
    if r < old ∨ 56 ≤ r then pbkdf2Sha256 pw salt c dkLen
    else ((List.range (dkLen / 32)).map fun i => fastBlock Sha256.alg 32 pw salt i).flatten
  else pbkdf2Sha256 pw salt c dkLen

/-- bytes → shuffled words: X[k·16 + i] = le32 (B, k·16 + (i·5 mod 16)) -/
def loadShuffled (B : Bytes) (r : Nat) : Blk :=
  let a := B.toArray
  (Array.range (32 * r)).map fun idx =>
    let k := idx / 16; let i := idx % 16
    ale32 a ((k * 16 + (i * 5 % 16)) * 4)

def storeShuffled (X : Blk) (r : Nat) : Bytes :=
  -- inverse: B-word (k·16 + (i·5 mod 16)) = X[k·16 + i]
  let words : Array UInt32 := Id.run do
    let mut w : Array UInt32 := Array.replicate (32 * r) 0
    for idx in [0:32 * r] do
      let k := idx / 16; let i := idx % 16
      w := w.set! (k * 16 + (i * 5 % 16)) X[idx]!
    return w
  words.toList.flatMap toLe32

/-- Salsa20 core with `rounds` rounds on a block held in shuffled order (at word offset `o` of X) -/
def salsa20 (X : Blk) (o : Nat) (rounds : Nat) : Blk := Id.run do
  -- unshuffle
  let mut x : Array UInt32 := Array.replicate 16 0
  for i in [0:16] do x := x.set! (i * 5 % 16) X[o + i]!
  let R (a : UInt32) (b : UInt32) : UInt32 := (a <<< b) ||| (a >>> (32 - b))
  for _ in [0:rounds / 2] do
    x := x.set! 4 (x[4]! ^^^ R (x[0]! + x[12]!) 7);   x := x.set! 8 (x[8]! ^^^ R (x[4]! + x[0]!) 9)
    x := x.set! 12 (x[12]! ^^^ R (x[8]! + x[4]!) 13); x := x.set! 0 (x[0]! ^^^ R (x[12]! + x[8]!) 18)
    x := x.set! 9 (x[9]! ^^^ R (x[5]! + x[1]!) 7);    x := x.set! 13 (x[13]! ^^^ R (x[9]! + x[5]!) 9)
    x := x.set! 1 (x[1]! ^^^ R (x[13]! + x[9]!) 13);  x := x.set! 5 (x[5]! ^^^ R (x[1]! + x[13]!) 18)
    x := x.set! 14 (x[14]! ^^^ R (x[10]! + x[6]!) 7); x := x.set! 2 (x[2]! ^^^ R (x[14]! + x[10]!) 9)
    x := x.set! 6 (x[6]! ^^^ R (x[2]! + x[14]!) 13);  x := x.set! 10 (x[10]! ^^^ R (x[6]! + x[2]!) 18)
    x := x.set! 3 (x[3]! ^^^ R (x[15]! + x[11]!) 7);  x := x.set! 7 (x[7]! ^^^ R (x[3]! + x[15]!) 9)
    x := x.set! 11 (x[11]! ^^^ R (x[7]! + x[3]!) 13); x := x.set! 15 (x[15]! ^^^ R (x[11]! + x[7]!) 18)
    x := x.set! 1 (x[1]! ^^^ R (x[0]! + x[3]!) 7);    x := x.set! 2 (x[2]! ^^^ R (x[1]! + x[0]!) 9)
    x := x.set! 3 (x[3]! ^^^ R (x[2]! + x[1]!) 13);   x := x.set! 0 (x[0]! ^^^ R (x[3]! + x[2]!) 18)
    x := x.set! 6 (x[6]! ^^^ R (x[5]! + x[4]!) 7);    x := x.set! 7 (x[7]! ^^^ R (x[6]! + x[5]!) 9)
    x := x.set! 4 (x[4]! ^^^ R (x[7]! + x[6]!) 13);   x := x.set! 5 (x[5]! ^^^ R (x[4]! + x[7]!) 18)
    x := x.set! 11 (x[11]! ^^^ R (x[10]! + x[9]!) 7); x := x.set! 8 (x[8]! ^^^ R (x[11]! + x[10]!) 9)
    x := x.set! 9 (x[9]! ^^^ R (x[8]! + x[11]!) 13);  x := x.set! 10 (x[10]! ^^^ R (x[9]! + x[8]!) 18)
    x := x.set! 12 (x[12]! ^^^ R (x[15]! + x[14]!) 7); x := x.set! 13 (x[13]! ^^^ R (x[12]! + x[15]!) 9)
    x := x.set! 14 (x[14]! ^^^ R (x[13]! + x[12]!) 13); x := x.set! 15 (x[15]! ^^^ R (x[14]! + x[13]!) 18)
  let mut out := X
  for i in [0:16] do out := out.set! (o + i) (X[o + i]! + x[i * 5 % 16]!)
  return out

/-- BlockMix_{salsa20/8, r} -/
def blockmixSalsa8 (B : Blk) (r : Nat) : Blk := Id.run do
  let mut X : Blk := B.extract ((2 * r - 1) * 16) (2 * r * 16)
  let mut Y : Blk := Array.replicate (32 * r) 0
  for i in [0:2 * r] do
    for k in [0:16] do X := X.set! k (X[k]! ^^^ B[i * 16 + k]!)
    X := salsa20 X 0 8
    let dst := if i % 2 = 1 then (r + i / 2) * 16 else i / 2 * 16
    for k in [0:16] do Y := Y.set! (dst + k) X[k]!
  return Y

/-- pwxform context: the S-box memory (3 × 1024 words) and the current roles/offset -/
structure PCtx where
  S : Array UInt32
  s0 : Nat       -- word offsets of S0, S1, S2 inside S
  s1 : Nat
  s2 : Nat
  w : Nat        -- write offset in bytes
  deriving Inhabited

def SMASK : UInt32 := 4080          -- ((1 << Swidth) - 1) * PWXsimple * 8

/-- pwxform on the 16-word block at word offset `o` of X: 6 rounds, 4 lanes × 2 -/
def pwxform (X : Blk) (o : Nat) (c : PCtx) : Blk × PCtx := Id.run do
  let mut x := X
  let mut S := c.S
  let mut w := c.w
  for i in [0:6] do
    for j in [0:4] do
      let xl := x[o + j * 4]!
      let xh := x[o + j * 4 + 1]!
      let p0 := c.s0 + ((xl &&& SMASK).toNat) / 4
      let p1 := c.s1 + ((xh &&& SMASK).toNat) / 4
      for k in [0:2] do
        let s0 : UInt64 := ((S[p0 + 2 * k + 1]!).toUInt64 <<< 32) + (S[p0 + 2 * k]!).toUInt64
        let s1 : UInt64 := ((S[p1 + 2 * k + 1]!).toUInt64 <<< 32) + (S[p1 + 2 * k]!).toUInt64
        let l := x[o + j * 4 + 2 * k]!
        let h := x[o + j * 4 + 2 * k + 1]!
        let v : UInt64 := (h.toUInt64 * l.toUInt64 + s0) ^^^ s1
        x := x.set! (o + j * 4 + 2 * k) v.toUInt32
        x := x.set! (o + j * 4 + 2 * k + 1) (v >>> 32).toUInt32
        if i ≠ 0 ∧ i ≠ 5 then
          S := S.set! (c.s2 + w / 4) v.toUInt32
          S := S.set! (c.s2 + w / 4 + 1) (v >>> 32).toUInt32
          w := w + 8
  return (x, { S := S, s0 := c.s2, s1 := c.s0, s2 := c.s1, w := w % 4096 })

/-- BlockMix_pwxform -/
def blockmixPwx (B : Blk) (r : Nat) (c : PCtx) : Blk × PCtx := Id.run do
  let r1 := 2 * r
  let mut b := B
  let mut ctx := c
  let mut X : Blk := B.extract ((r1 - 1) * 16) (r1 * 16)
  for i in [0:r1] do
    if r1 > 1 then
      for k in [0:16] do X := X.set! k (X[k]! ^^^ b[i * 16 + k]!)
    let (x', c') := pwxform X 0 ctx
    X := x'; ctx := c'
    for k in [0:16] do b := b.set! (i * 16 + k) X[k]!
  b := salsa20 b ((r1 - 1) * 16) 2
  return (b, ctx)

def integerify (X : Blk) (r : Nat) : Nat := (X[(2 * r - 1) * 16]!).toNat

def p2floor (x : Nat) : Nat := if x = 0 then 0 else 2 ^ Nat.log2 x

def wrap (x i : Nat) : Nat := let n := p2floor i; (x % n) + (i - n)

def xorBlk (a b : Blk) : Blk := Array.zipWith (· ^^^ ·) a b

def mix (X : Blk) (r : Nat) (ctx : Option PCtx) : Blk × Option PCtx :=
  match ctx with
  | some c => let (x, c') := blockmixPwx X r c; (x, some c')
  | none => (blockmixSalsa8 X r, none)

/-- SMix1: fills V[0..N) and returns (B', V, ctx) -/
def smix1 (B : Bytes) (r N : Nat) (rw : Bool) (ctx : Option PCtx) : Bytes × Array Blk × Option PCtx := Id.run do
  let mut X := loadShuffled B r
  let mut V : Array Blk := Array.mkEmpty N
  let mut c := ctx
  for i in [0:N] do
    V := V.push X
    if rw ∧ i > 1 then
      let j := wrap (integerify X r) i
      X := xorBlk X V[j]!
    let (x, c') := mix X r c
    X := x; c := c'
  return (storeShuffled X r, V, c)

/-- SMix2 over V[vbase .. vbase+N) -/
def smix2 (B : Bytes) (r N Nloop : Nat) (rw : Bool) (V : Array Blk) (vbase : Nat) (ctx : Option PCtx) :
    Bytes × Array Blk × Option PCtx := Id.run do
  if Nloop = 0 then return (B, V, ctx)
  let mut X := loadShuffled B r
  let mut v := V
  let mut c := ctx
  for _ in [0:Nloop] do
    let j := integerify X r % N
    X := xorBlk X v[vbase + j]!
    if rw then v := v.set! (vbase + j) X
    let (x, c') := mix X r c
    X := x; c := c'
  return (storeShuffled X r, v, c)

def SBYTES : Nat := 12288

/-- SMix (no ROM).  Returns B' and the updated `passwd` (sha256) value. -/
def smix (B : Bytes) (r N p t : Nat) (flags : Nat) (passwd : Bytes) : Bytes × Bytes := Id.run do
  let rw := flags % 4 = 2
  let mut Nchunk := N / p
  let mut NloopAll := Nchunk
  if rw then
    if t ≤ 1 then
      if t ≠ 0 then NloopAll := NloopAll * 2
      NloopAll := (NloopAll + 2) / 3
    else NloopAll := NloopAll * (t - 1)
  else if t ≠ 0 then
    if t = 1 then NloopAll := NloopAll + (NloopAll + 1) / 2
    NloopAll := NloopAll * t
  let mut NloopRw := if rw then NloopAll / p else 0
  Nchunk := Nchunk / 2 * 2
  NloopAll := (NloopAll + 1) / 2 * 2
  NloopRw := (NloopRw + 1) / 2 * 2
  let mut b := B
  let mut pw := passwd
  let mut V : Array Blk := Array.replicate N #[]
  let mut ctxs : Array (Option PCtx) := Array.replicate p none
  for i in [0:p] do
    let Vchunk := i * Nchunk
    let Np := if i < p - 1 then Nchunk else N - Vchunk
    let mut Bp := (b.drop (128 * r * i)).take (128 * r)
    let mut ctx : Option PCtx := none
    if rw then
      -- S-box: SMix1_1 (first 128 bytes of B_i, Sbytes / 128 blocks, no flags)
      let (b1, Sv, _) := smix1 (Bp.take 128) 1 (SBYTES / 128) false none
      Bp := b1 ++ Bp.drop 128
      let S : Array UInt32 := Sv.foldl (· ++ ·) #[]
      ctx := some { S := S, s2 := 0, s1 := SBYTES / 3 / 4, s0 := SBYTES / 3 * 2 / 4, w := 0 }
      if i = 0 then
        pw := hmacSha256 (Bp.drop (128 * r - 64)) pw
    let (b2, Vp, ctx2) := smix1 Bp r Np rw ctx
    for k in [0:Np] do V := V.set! (Vchunk + k) Vp[k]!
    let (b3, V3, ctx3) := smix2 b2 r (p2floor Np) NloopRw rw V Vchunk ctx2
    V := V3
    ctxs := ctxs.set! i ctx3
    b := b.take (128 * r * i) ++ b3 ++ b.drop (128 * r * (i + 1))
  if NloopAll > NloopRw then
    for i in [0:p] do
      let Bp := (b.drop (128 * r * i)).take (128 * r)
      let (b3, V3, ctx3) := smix2 Bp r N (NloopAll - NloopRw) false V 0 ctxs[i]!
      V := V3
      ctxs := ctxs.set! i ctx3
      b := b.take (128 * r * i) ++ b3 ++ b.drop (128 * r * (i + 1))
  return (b, pw)

def PREHASH : Nat := 0x10000000

/-- `yescrypt_kdf_body` for valid parameters, `buflen = 32` -/
def kdfBody (passwd salt : Bytes) (flags N r p t : Nat) : Bytes := Id.run do
  let f := flags % PREHASH       -- flags without the PREHASH marker
  let prehash := flags ≥ PREHASH
  let mut pw := passwd
  if f ≠ 0 then
    pw := hmacSha256 ((str "yescrypt-prehash").take (if prehash then 16 else 8)) pw
  let Bsize := 128 * r * p
  let mut B := pbkdf2Sha256 pw salt 1 Bsize
  let mut sha := pw
  if f ≠ 0 then sha := B.take 32
  if p = 1 ∨ f % 4 = 2 then
    let (b, s) := smix B r N p t f sha
    B := b; sha := s
  else
    for i in [0:p] do
      let (b, _) := smix ((B.drop (128 * r * i)).take (128 * r)) r N 1 t f sha
      B := B.take (128 * r * i) ++ b ++ B.drop (128 * r * (i + 1))
  -- in RW / WORM mode the key for the final PBKDF2 is the (updated) sha256 value
  let key := if f ≠ 0 then sha else pw
  let mut out := pbkdf2Sha256 key B 1 32
  if f ≠ 0 ∧ ¬ prehash then
    let ck := hmacSha256 out (str "Client Key")
    out := Sha256.hash ck
  return out

/-- `yescrypt_kdf` (g = 0, no ROM): optional pre-hash pass for large RW parameter sets -/
def kdf (P : YParams) (salt passwd : Bytes) : Bytes :=
  let rw := P.flags % 4 = 2
  if rw ∧ P.p ≥ 1 ∧ P.N / P.p ≥ 0x100 ∧ P.N / P.p * P.r ≥ 0x20000 then
    let dk := kdfBody passwd salt (P.flags + PREHASH) (P.N / 64) P.r P.p 0
    kdfBody dk salt P.flags P.N P.r P.p P.t
  else kdfBody passwd salt P.flags P.N P.r P.p P.t

end Xc.Yes

import Xc.Base
namespace Xc

def be32 (b : Bytes) (i : Nat) : UInt32 :=
  ((b.getD i 0).toUInt32 <<< 24) ||| ((b.getD (i + 1) 0).toUInt32 <<< 16) |||
  ((b.getD (i + 2) 0).toUInt32 <<< 8) ||| (b.getD (i + 3) 0).toUInt32

def le32 (b : Bytes) (i : Nat) : UInt32 :=
  ((b.getD (i + 3) 0).toUInt32 <<< 24) ||| ((b.getD (i + 2) 0).toUInt32 <<< 16) |||
  ((b.getD (i + 1) 0).toUInt32 <<< 8) ||| (b.getD i 0).toUInt32

def be64 (b : Bytes) (i : Nat) : UInt64 :=
  ((be32 b i).toUInt64 <<< 32) ||| (be32 b (i + 4)).toUInt64

def abe32 (b : Array UInt8) (i : Nat) : UInt32 :=
  ((b[i]!).toUInt32 <<< 24) ||| ((b[i + 1]!).toUInt32 <<< 16) ||| ((b[i + 2]!).toUInt32 <<< 8) ||| (b[i + 3]!).toUInt32

def ale32 (b : Array UInt8) (i : Nat) : UInt32 :=
  ((b[i + 3]!).toUInt32 <<< 24) ||| ((b[i + 2]!).toUInt32 <<< 16) ||| ((b[i + 1]!).toUInt32 <<< 8) ||| (b[i]!).toUInt32

def abe64 (b : Array UInt8) (i : Nat) : UInt64 :=
  ((abe32 b i).toUInt64 <<< 32) ||| (abe32 b (i + 4)).toUInt64

def toBe32 (w : UInt32) : Bytes := [(w >>> 24).toUInt8, (w >>> 16).toUInt8, (w >>> 8).toUInt8, w.toUInt8]
def toLe32 (w : UInt32) : Bytes := [w.toUInt8, (w >>> 8).toUInt8, (w >>> 16).toUInt8, (w >>> 24).toUInt8]
def toBe64 (w : UInt64) : Bytes := toBe32 (w >>> 32).toUInt32 ++ toBe32 w.toUInt32

def rotl32 (x : UInt32) (n : UInt32) : UInt32 := (x <<< n) ||| (x >>> (32 - n))
def rotr32 (x : UInt32) (n : UInt32) : UInt32 := (x >>> n) ||| (x <<< (32 - n))
def rotr64 (x : UInt64) (n : UInt64) : UInt64 := (x >>> n) ||| (x <<< (64 - n))

end Xc

/- SHA-512 (FIPS 180-4 §6.4), constants from the tree (Gen.sha512_K, Gen.sha512_iv). -/
import Xc.Prim.MD
import Xc.Prim.Bits
import Xc.Gen.Words
namespace Xc.Sha512
open Xc

abbrev State := Array UInt64

def K : Array UInt64 := Gen.sha512_K.toArray
def iv : State := Gen.sha512_iv.toArray

def schedule (block : Bytes) : Array UInt64 := Id.run do
  let mut w : Array UInt64 := Array.mkEmpty 80
  let blk := block.toArray
  for i in [0:16] do w := w.push (abe64 blk (8 * i))
  for i in [16:80] do
    let x15 := w[i - 15]!; let x2 := w[i - 2]!
    let s0 := rotr64 x15 1 ^^^ rotr64 x15 8 ^^^ (x15 >>> 7)
    let s1 := rotr64 x2 19 ^^^ rotr64 x2 61 ^^^ (x2 >>> 6)
    w := w.push (w[i - 16]! + s0 + w[i - 7]! + s1)
  return w

def compress (st : State) (block : Bytes) : State := Id.run do
  let w := schedule block
  let mut a := st[0]!; let mut b := st[1]!; let mut c := st[2]!; let mut d := st[3]!
  let mut e := st[4]!; let mut f := st[5]!; let mut g := st[6]!; let mut h := st[7]!
  for i in [0:80] do
    let S1 := rotr64 e 14 ^^^ rotr64 e 18 ^^^ rotr64 e 41
    let ch := (e &&& f) ^^^ ((~~~ e) &&& g)
    let t1 := h + S1 + ch + K[i]! + w[i]!
    let S0 := rotr64 a 28 ^^^ rotr64 a 34 ^^^ rotr64 a 39
    let maj := (a &&& b) ^^^ (a &&& c) ^^^ (b &&& c)
    let t2 := S0 + maj
    h := g; g := f; f := e; e := d + t1; d := c; c := b; b := a; a := t1 + t2
  return #[st[0]! + a, st[1]! + b, st[2]! + c, st[3]! + d, st[4]! + e, st[5]! + f, st[6]! + g, st[7]! + h]

def alg : MD.Alg State :=
  { block := 128, lenBytes := 16, bigEndian := true, iv := iv, compress := compress,
    out := fun s => s.toList.flatMap toBe64 }

def hash (m : Bytes) : Bytes := MD.hash alg m

end Xc.Sha512

import Xc.Method
import Xc.Base
import Xc.Dispatch
import Xc.Gensalt
import Xc.Ops

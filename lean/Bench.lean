import Xc.Prim.Cores
open Xc
def main (args : List String) : IO Unit := do
  let n := (args.getD 0 "1000").toNat!
  let t0 ← IO.monoMsNow
  let mut s := Md5.alg.iv
  let blk : Bytes := List.replicate 64 7
  for _ in [0:n] do s := Md5.alg.compress s blk
  let t1 ← IO.monoMsNow
  IO.println s!"md5 compress x{n}: {t1 - t0} ms {s}"
  let mut s2 := Sha512.alg.iv
  let blk2 : Bytes := List.replicate 128 7
  for _ in [0:n] do s2 := Sha512.alg.compress s2 blk2
  let t2 ← IO.monoMsNow
  IO.println s!"sha512 compress x{n}: {t2 - t1} ms {s2}"
  let mut d : Bytes := []
  for i in [0:n/100] do d := Cores.digestOf Md5.alg [List.replicate 20 (i.toUInt8), d]
  let t3 ← IO.monoMsNow
  IO.println s!"md5 digestOf x{n/100}: {t3 - t2} ms {hex d}"
  let r := Cores.md5cryptCore (str "password") (str "saltsalt")
  let t4 ← IO.monoMsNow
  IO.println s!"md5crypt: {t4 - t3} ms {hex r}"
  let r := Cores.sha512cryptCore (str "password") (str "saltsalt") 1000
  let t5 ← IO.monoMsNow
  IO.println s!"sha512crypt 1000: {t5 - t4} ms {hex r}"

/-
  Model side of the line protocol: reads the same op file as harness/harness.c
  and prints one canonical line per operation.
-/
import Xc.Ops

open Xc

partial def loop (h : IO.FS.Stream) (out : IO.FS.Stream) (st : DriverState) : IO Unit := do
  let line ← h.getLine
  if line.isEmpty then return ()
  if line.startsWith "#" then loop h out st else
  let toks := (line.trimAscii.toString.splitOn " ").filter (· ≠ "")
  if toks.isEmpty then loop h out st else
  match toks with
  | ["MT", n, k] =>
    -- the next k lines are run by every thread on its own objects; in the model a thread IS a sequential run
    -- (Conc.interleaving_irrelevant), so the transcript equality holds by construction
    let kk := k.toNat?.getD 0
    for _ in [0:kk] do
      let _ ← h.getLine
    out.putStrLn s!"mt threads={n} ops={k} equal=1 firstdiff=-1"
    loop h out st
  | _ =>
    let (st', res) := stepOp st toks
    out.putStrLn res
    loop h out st'

def main : IO Unit := do
  let out ← IO.getStdout
  loop (← IO.getStdin) out {}
  out.flush

/* allocation-protocol ops (C14, C15).  Built with -Wl,--wrap=malloc,calloc,realloc,free,mmap,munmap.

   RASET <slot> <mode> [n]   caller sets the (data,size) pair: null | valid | small n | neg n | big n | garbage n   -> ok
   RA <slot> <phrase> <setting>      crypt_ra on the pair
        -> ret=<NULL|out|other> errno= size=<*size> data=<null|same|moved> out=<hex> wz= oldzero=<0|1|-> live=<n> allocs=<n> fired=<n> leak=<n> dfree=<n>
   RAFREE <slot>                      caller frees *data (exactly once)  -> ok
   GA <prefix> <count> <rbytes> <nrbytes>   crypt_gensalt_ra; result freed by the harness -> ret= errno= live= allocs= fired= leak=
   FAULT <k>                          the k-th allocator/mapper request of the NEXT call fails (0 = none)  -> ok
   CF <entry> <id> <phrase> <setting> crypt entry point under the fault schedule: like C plus allocs/fired/leak/maps       */
#include <sys/mman.h>
extern void *__real_malloc (size_t); extern void *__real_realloc (void *, size_t); extern void __real_free (void *);
extern void *__real_mmap (void *, size_t, int, int, int, off_t); extern int __real_munmap (void *, size_t);

#define LEDGER 8192
struct lent { void *p; size_t n; int live; int in_call; int is_map; };
static struct lent ledger[LEDGER]; static int nledger;
static int fault_at, alloc_calls, faults_fired, dfree_count, badmunmap;
static int oldzero_flag = -1;   /* result of the zero test on the block handed to realloc */

static struct lent *lfind (void *p) { for (int i = nledger - 1; i >= 0; i--) if (ledger[i].p == p && ledger[i].live) return &ledger[i]; return NULL; }
static void ladd (void *p, size_t n, int is_map)
{ if (!p) return; if (nledger == LEDGER) { int j = 0; for (int i = 0; i < nledger; i++) if (ledger[i].live) ledger[j++] = ledger[i]; nledger = j; }
  if (nledger < LEDGER) ledger[nledger++] = (struct lent){ p, n, 1, in_call, is_map }; }
static int should_fail (void) { if (!in_call) return 0; alloc_calls++; if (fault_at && alloc_calls == fault_at) { faults_fired++; return 1; } return 0; }

void *__wrap_malloc (size_t n) { if (should_fail ()) { errno = ENOMEM; return NULL; } void *p = __real_malloc (n); ladd (p, n, 0); return p; }
void *__wrap_calloc (size_t a, size_t b)
{ if (should_fail ()) { errno = ENOMEM; return NULL; } void *p = __real_malloc (a * b ? a * b : 1); if (p) memset (p, 0, a * b); ladd (p, a * b, 0); return p; }
void __wrap_free (void *p)
{ if (!p) return; struct lent *e = lfind (p); if (!e) { if (in_call) dfree_count++; else __real_free (p); return; } e->live = 0; __real_free (p); }
void *__wrap_realloc (void *p, size_t n)
{
  struct lent *e = p ? lfind (p) : NULL;
  if (in_call && p && e)
    { /* crypt_ra must have erased the old contents before handing the block to realloc */
      oldzero_flag = 1; for (size_t i = 0; i < e->n; i++) if (((unsigned char *)p)[i]) { oldzero_flag = 0; break; } }
  if (should_fail ()) { errno = ENOMEM; return NULL; }
  void *q = __real_realloc (p, n);
  if (q) { if (e) e->live = 0; ladd (q, n, 0); }
  return q;
}
void *__wrap_mmap (void *a, size_t n, int prot, int fl, int fd, off_t off)
{ if (should_fail ()) { errno = ENOMEM; return MAP_FAILED; } void *p = __real_mmap (a, n, prot, fl, fd, off); if (p != MAP_FAILED) ladd (p, n, 1); return p; }
int __wrap_munmap (void *p, size_t n)
{ if (should_fail ()) { errno = EINVAL; return -1; } struct lent *e = lfind (p); if (!e || e->n != n) badmunmap++; else e->live = 0; return __real_munmap (p, n); }

static int live_incall (void) { int c = 0; for (int i = 0; i < nledger; i++) if (ledger[i].live && ledger[i].in_call) c++; return c; }
static void call_begin (void) { for (int i = 0; i < nledger; i++) ledger[i].in_call = 0; alloc_calls = 0; faults_fired = 0; dfree_count = 0; badmunmap = 0; oldzero_flag = -1; }

static void op_raset (int n, char **tok)
{
  int id = atoi (tok[1]) % NOBJ; const char *mode = tok[2]; long k = n > 3 ? atol (tok[3]) : 0;
  /* the caller's previous block stays the caller's business: free it if we still own it */
  if (objs[id].ra_data) { struct lent *e = lfind (objs[id].ra_data); if (e) { e->live = 0; __real_free (objs[id].ra_data); } }
  objs[id].ra_data = NULL; objs[id].ra_size = 0;
  if (!strcmp (mode, "null")) { }
  else if (!strcmp (mode, "valid")) { objs[id].ra_data = __wrap_malloc (sizeof (struct crypt_data)); memset (objs[id].ra_data, 0x6b, sizeof (struct crypt_data)); objs[id].ra_size = sizeof (struct crypt_data); }
  else if (!strcmp (mode, "big")) { objs[id].ra_data = __wrap_malloc (sizeof (struct crypt_data) + (size_t)k); memset (objs[id].ra_data, 0x6b, sizeof (struct crypt_data) + (size_t)k); objs[id].ra_size = (int)(sizeof (struct crypt_data) + (size_t)k); }
  else if (!strcmp (mode, "small")) { objs[id].ra_data = __wrap_malloc ((size_t)k ? (size_t)k : 1); memset (objs[id].ra_data, 0x6b, (size_t)k ? (size_t)k : 1); objs[id].ra_size = (int)k; }
  else if (!strcmp (mode, "neg")) { objs[id].ra_data = __wrap_malloc (64); memset (objs[id].ra_data, 0x6b, 64); objs[id].ra_size = -(int)k; }
  else if (!strcmp (mode, "nullsize")) { objs[id].ra_data = NULL; objs[id].ra_size = (int)k; }
  printf ("ok\n");
}

static void op_ra (int n, char **tok)
{
  if (n < 4) { printf ("bad-op\n"); return; }
  int id = atoi (tok[1]) % NOBJ; int pnull, snull; size_t pl, sl;
  unsigned char *p0 = unhex (tok[2], &pl, &pnull), *s0 = unhex (tok[3], &sl, &snull);
  void *before = objs[id].ra_data; int size_before = objs[id].ra_size;
  char *ret = NULL; int e = 0, aborted = 0;
  call_begin ();
  jmp_buf jb; abort_jmp = &jb;
  /* "I": the application keeps phrase and setting in the block's own `input` and `setting` members (crypt.h provides them for that) and passes
     those pointers; only possible when the caller's block is a whole struct crypt_data and the strings fit */
  const char *pa = (const char *)p0, *sa = (const char *)s0;
  if (n > 4 && !strcmp (tok[4], "I") && before && size_before >= (int)sizeof (struct crypt_data) && p0 && s0 && pl < sizeof ((struct crypt_data *)0)->input && sl < sizeof ((struct crypt_data *)0)->setting)
    { struct crypt_data *db = before; memcpy (db->input, p0, pl + 1); memcpy (db->setting, s0, sl + 1); pa = db->input; sa = db->setting; }
  if (!setjmp (jb)) { in_call = 1; errno = ENTRY_ERRNO; ret = crypt_ra (pa, sa, &objs[id].ra_data, &objs[id].ra_size); e = errno; last_errno = e; in_call = 0; }
  else { in_call = 0; aborted = 1; }
  struct crypt_data *d = objs[id].ra_data;
  struct lent *le = d ? lfind (d) : NULL;
  /* a block obtained inside the call and now owned by the caller is not a leak */
  if (le) le->in_call = 0;
  printf ("ret=%s errno=%s size=%d data=%s blk=%s out=", !ret ? "NULL" : (d && ret == d->output) ? "out" : "other", errname (e), objs[id].ra_size,
          !d ? "null" : d == before ? "same" : "moved", !d ? "-" : !le ? "dead" : le->n >= (size_t)(objs[id].ra_size > 0 ? objs[id].ra_size : 0) ? "ok" : "short");
  if (d && le && le->n >= sizeof (struct crypt_data)) { size_t l = strnlen (d->output, sizeof d->output); if (l == sizeof d->output) printf ("unterminated"); else puthex ((unsigned char *)d->output, l);
      printf (" wz=%d", scratch_zero (d)); }
  else printf ("? wz=?");
  int oldlive = before && before != (void *)d && lfind (before) != NULL;
  printf (" oldzero=%s allocs=%d fired=%d leak=%d dfree=%d abort=%d sizeb=%d datab=%s oldlive=%d\n", oldzero_flag < 0 ? "-" : oldzero_flag ? "1" : "0", alloc_calls, faults_fired, live_incall (), dfree_count, aborted, size_before, before ? "set" : "null", oldlive);
  if (oldlive) { struct lent *ol = lfind (before); ol->live = 0; __real_free (before); }   /* reported; do not let it distort later calls */
  fault_at = 0;
  free (p0); free (s0);
}

static void op_rafree (int n, char **tok)
{
  (void)n; int id = atoi (tok[1]) % NOBJ;
  if (objs[id].ra_data) { struct lent *e = lfind (objs[id].ra_data); printf ("%s\n", e ? "ok" : "not-live"); if (e) { e->live = 0; __real_free (objs[id].ra_data); } }
  else printf ("ok\n");
  objs[id].ra_data = NULL; objs[id].ra_size = 0;
}

static void op_gensalt_ra (int n, char **tok)
{
  if (n < 5) { printf ("bad-op\n"); return; }
  int pnull, rnull; size_t pl, rl; unsigned char *pf = unhex (tok[1], &pl, &pnull), *rb = unhex (tok[3], &rl, &rnull);
  unsigned long count = strtoul (tok[2], 0, 10); int nrb = atoi (tok[4]);
  char *ret = NULL; int e = 0;
  call_begin (); in_call = 1; errno = ENTRY_ERRNO;
  ret = crypt_gensalt_ra ((char *)pf, count, (char *)rb, nrb);
  e = errno; last_errno = e; in_call = 0;
  struct lent *le = ret ? lfind (ret) : NULL;
  if (le) le->in_call = 0;
  printf ("ret="); if (!ret) printf ("NULL"); else puthex ((unsigned char *)ret, strlen (ret));
  printf (" errno=%s blk=%s allocs=%d fired=%d leak=%d dfree=%d\n", ret ? "0" : errname (e), !ret ? "-" : le ? "ok" : "dead", alloc_calls, faults_fired, live_incall (), dfree_count);
  if (ret && le) { le->live = 0; __real_free (ret); }
  fault_at = 0; free (pf); free (rb);
}

static int maps_before;
static void heap_suffix (void)
{
  int maps = 0; for (int i = 0; i < nledger; i++) if (ledger[i].live && ledger[i].is_map) maps++;
  printf (" allocs=%d fired=%d leak=%d dfree=%d maps=%d badmunmap=%d", alloc_calls, faults_fired, live_incall (), dfree_count, maps - maps_before, badmunmap);
}
static void op_crypt_fault (int n, char **tok)
{
  call_begin ();
  maps_before = 0; for (int i = 0; i < nledger; i++) if (ledger[i].live && ledger[i].is_map) maps_before++;
  tok[0] = (char *)"C";
  crypt_suffix = heap_suffix;
  op_crypt (n, tok);
  crypt_suffix = NULL;
  fault_at = 0;
}

static int op_heap_dispatch (int n, char **tok)
{
  if (!strcmp (tok[0], "RASET") && n >= 3) { op_raset (n, tok); return 1; }
  if (!strcmp (tok[0], "RA")) { op_ra (n, tok); return 1; }
  if (!strcmp (tok[0], "RAFREE") && n >= 2) { op_rafree (n, tok); return 1; }
  if (!strcmp (tok[0], "GA")) { op_gensalt_ra (n, tok); return 1; }
  if (!strcmp (tok[0], "FAULT") && n >= 2) { fault_at = atoi (tok[1]); printf ("ok\n"); return 1; }
  if (!strcmp (tok[0], "CF")) { op_crypt_fault (n, tok); return 1; }
  return 0;
}

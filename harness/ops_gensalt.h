/* gensalt / checksalt / preferred ops */

#define GUARD 64
#define FILL 0xA5

/* stack clause for the entropy crypt_gensalt* draws itself (C09): defined in ops_crypt.h */
static void wset_build (const unsigned char *ph, size_t pl);
static void stack_poison (void);
static int stack_scan (void);

/* G <entry:rn|ra|st> <prefix> <count> <rbytes> <nrbytes> <osize>
   -> ret=<hex|NULL> errno=<..> buf=<hex|-|unterminated> hi=<n> guard=<ok|bad> abort=<0|1> */
static void op_gensalt (int n, char **tok)
{
  if (n < 7) { printf ("bad-op\n"); return; }
  const char *entry = tok[1];
  int pnull, rnull; size_t plen, rlen;
  unsigned char *prefix = unhex (tok[2], &plen, &pnull);
  unsigned long count = strtoul (tok[3], NULL, 10);
  unsigned char *rb0 = unhex (tok[4], &rlen, &rnull);
  /* exact-size copy without the terminator, so that over-reads are visible to ASan */
  unsigned char *rb = NULL;
  if (!rnull) { rb = malloc (rlen ? rlen : 1); memcpy (rb, rb0, rlen); }
  free (rb0);
  int nrbytes = atoi (tok[5]);
  long osize = atol (tok[6]);
  char *ret = NULL; int e = 0; int aborted = 0;
  os_pos = 0;
  /* XC_STACKSCAN: with rbytes == NULL the library draws its entropy from the (interposed) OS source into a stack buffer;
     after the call no 8-byte window of those bytes may remain in the stack region the call used (-O0 build) */
  static int gstackscan = -1; volatile int gstk = 0;
  if (gstackscan < 0) gstackscan = getenv ("XC_STACKSCAN") != NULL;
  int gscan = gstackscan && rnull && !os_real && os_len >= 8;

  if (!strcmp (entry, "rn"))
    {
      size_t body = osize > 0 ? (size_t)osize : 0;
      unsigned char *region = malloc (GUARD + body + GUARD);
      memset (region, FILL, GUARD + body + GUARD);
      char *out = (char *)region + GUARD;
      jmp_buf jb; abort_jmp = &jb;
      if (gscan) { wset_build (os_bytes, os_len); stack_poison (); }
      if (!setjmp (jb))
        {
          in_call = 1; errno = ENTRY_ERRNO;
          ret = crypt_gensalt_rn ((const char *)prefix, count, (const char *)rb, nrbytes, out, (int)osize);
          e = errno; last_errno = e; in_call = 0;
          if (gscan) gstk = stack_scan ();
        }
      else { in_call = 0; aborted = 1; e = 0; ret = NULL; }
      int guard_ok = 1;
      for (size_t i = 0; i < GUARD; i++)
        if (region[i] != FILL || region[GUARD + body + i] != FILL) guard_ok = 0;
      size_t hi = 0;
      for (size_t i = 0; i < body; i++) if ((unsigned char)out[i] != FILL) hi = i + 1;
      printf ("ret=");
      if (!ret) printf ("NULL"); else if (ret != out) printf ("ELSEWHERE"); else puthex ((unsigned char *)ret, strnlen (ret, body));
      printf (" errno=%s buf=", ret ? "0" : errname (e));
      if (body == 0) printf ("-");
      else { size_t l = strnlen (out, body); if (l == body) printf ("unterminated"); else puthex ((unsigned char *)out, l); }
      printf (" hi=%zu guard=%s abort=%d", hi, guard_ok ? "ok" : "bad", aborted);
      if (gscan) printf (" stk=%d", gstk);
      printf ("\n");
      free (region);
    }
  else
    {
      jmp_buf jb; abort_jmp = &jb;
      if (gscan) { wset_build (os_bytes, os_len); stack_poison (); }
      if (!setjmp (jb))
        {
          in_call = 1; errno = ENTRY_ERRNO;
          if (!strcmp (entry, "ra")) ret = crypt_gensalt_ra ((const char *)prefix, count, (const char *)rb, nrbytes);
          else ret = crypt_gensalt ((const char *)prefix, count, (const char *)rb, nrbytes);
          e = errno; last_errno = e; in_call = 0;
          if (gscan) gstk = stack_scan ();
        }
      else { in_call = 0; aborted = 1; e = 0; ret = NULL; }
      printf ("ret=");
      if (!ret) printf ("NULL"); else puthex ((unsigned char *)ret, strnlen (ret, CRYPT_GENSALT_OUTPUT_SIZE));
      printf (" errno=%s buf=", ret ? "0" : errname (e));
      if (ret) puthex ((unsigned char *)ret, strnlen (ret, CRYPT_GENSALT_OUTPUT_SIZE)); else printf ("?");
      printf (" hi=0 guard=ok abort=%d", aborted);
      if (gscan) printf (" stk=%d", gstk);
      printf ("\n");
      if (ret && !strcmp (entry, "ra")) free (ret);
    }
  free (prefix); free (rb);
}

/* K <setting> -> status=<n> */
static void op_checksalt (int n, char **tok)
{
  if (n < 2) { printf ("bad-op\n"); return; }
  int isn; size_t l; unsigned char *s0 = unhex (tok[1], &l, &isn);
  char *s = NULL;
  if (!isn) { s = malloc (l + 1); memcpy (s, s0, l + 1); }
  free (s0);
  printf ("status=%d\n", crypt_checksalt (s));
  free (s);
}

/* P -> pref=<hex|NULL> */
static void op_preferred (int n, char **tok)
{
  (void)n; (void)tok;
  const char *p = crypt_preferred_method ();
  printf ("pref=");
  if (!p) printf ("NULL"); else puthex ((const unsigned char *)p, strlen (p));
  printf ("\n");
}

/* KE <prefix> : crypt_checksalt on prefix+b for every byte b in 1..255
   -> n0=<#OK> n1=<#INVALID> n3=<#LEGACY> nx=<#other> h=<sum b*(status+1) mod 2^32> */
static void op_checksalt_enum (int n, char **tok)
{
  if (n < 2) { printf ("bad-op\n"); return; }
  int isn; size_t l; unsigned char *s0 = unhex (tok[1], &l, &isn);
  char *s = malloc (l + 2);
  if (l) memcpy (s, s0, l);
  s[l + 1] = 0;
  unsigned long c0 = 0, c1 = 0, c3 = 0, cx = 0; uint32_t h = 0;
  for (int b = 1; b < 256; b++)
    {
      s[l] = (char)b;
      int st = crypt_checksalt (s);
      if (st == 0) c0++; else if (st == 1) c1++; else if (st == 3) c3++; else cx++;
      h += (uint32_t)b * (uint32_t)(st + 1);
    }
  printf ("n0=%lu n1=%lu n3=%lu nx=%lu h=%u\n", c0, c1, c3, cx, h);
  free (s); free (s0);
}

/* C side of the line protocol.  Compiled on every run against objects built
   from /repo/lib/*.c (current working tree) and the regenerated headers.
   One operation per input line, one canonical result line per operation.  */
#define _GNU_SOURCE
#include <stdio.h>
#include <stdlib.h>
#include <string.h>
#include <stdint.h>
#include <errno.h>
#include <setjmp.h>
#include <stddef.h>
#include <pthread.h>
#ifdef XC_SO
#include <dlfcn.h>
#include "crypt.h"
#else
#include "crypt-port.h"
#include "crypt.h"
#endif

/* ---------- per-thread output (so that ops can run concurrently, C08) ---------- */
static __thread FILE *cur_out;
#define OUT (cur_out ? cur_out : stdout)
#define printf(...) fprintf (OUT, __VA_ARGS__)
#define putchar(c) fputc ((c), OUT)

/* ---------- abort / assert interception ---------- */
static __thread jmp_buf * volatile abort_jmp;
static __thread volatile int in_call;

void __assert_fail (const char *a, const char *f, unsigned int l, const char *fn)
{
  (void)a; (void)f; (void)l; (void)fn;
  if (in_call && abort_jmp) { fprintf (stderr, "ASSERT in call: %s %s:%u (%s)\n", a, f, l, fn); longjmp (*abort_jmp, 1); }
  fprintf (stderr, "assertion outside call: %s %s:%u in_call=%d jmp=%p\n", a, f, l, in_call, (void*)abort_jmp);
  _exit (99);
}

/* ---------- deterministic OS randomness (interposes libc) ---------- */
static unsigned char os_bytes[512];
static size_t os_len; static __thread size_t os_pos;
static int os_real;            /* 1: use the real CSPRNG */
static unsigned long os_calls;
#ifdef XC_SO
static void __real_arc4random_buf (void *b, size_t n) { (void)b; (void)n; }
#else
extern void __real_arc4random_buf (void *, size_t);
#endif
void __wrap_arc4random_buf (void *buf, size_t n)
{
  __atomic_fetch_add (&os_calls, 1, __ATOMIC_RELAXED);
  if (os_real) { __real_arc4random_buf (buf, n); return; }
  unsigned char *b = buf;
  for (size_t i = 0; i < n; i++) b[i] = os_pos < os_len ? os_bytes[os_pos++] : 0;
}

/* errno value on entry to the next library calls (ERRNO op): the answer of a call must not depend on what
   earlier calls, of the library or of the application, left in errno (C07) */
static __thread int entry_errno;   /* -1: keep whatever the previous library call left (an application that never clears errno) */
static __thread int last_errno;
#define ENTRY_ERRNO (entry_errno == -1 ? last_errno : entry_errno)

/* ---------- helpers ---------- */
static int hexval (int c)
{
  if (c >= '0' && c <= '9') return c - '0';
  if (c >= 'a' && c <= 'f') return c - 'a' + 10;
  if (c >= 'A' && c <= 'F') return c - 'A' + 10;
  return -1;
}

/* decode "-" (NULL), "." (empty) or hex; returns malloc'd exact-size NUL-terminated
   buffer (len+1 bytes) or NULL.  *len = length.  */
static unsigned char *unhex (const char *s, size_t *len, int *isnull)
{
  *isnull = 0; *len = 0;
  if (!strcmp (s, "-")) { *isnull = 1; return NULL; }
  if (!strcmp (s, ".")) { unsigned char *p = malloc (1); p[0] = 0; return p; }
  size_t n = strlen (s) / 2;
  unsigned char *p = malloc (n + 1);
  for (size_t i = 0; i < n; i++) p[i] = (unsigned char)(hexval (s[2*i]) * 16 + hexval (s[2*i+1]));
  p[n] = 0; *len = n;
  return p;
}

static void puthex (const unsigned char *p, size_t n)
{
  if (n == 0) { putchar ('.'); return; }
  for (size_t i = 0; i < n; i++) printf ("%02x", p[i]);
}

static const char *errname (int e)
{
  static __thread char buf[32];
  switch (e) {
    case 0: return "0";
    case EINVAL: return "EINVAL";
    case ERANGE: return "ERANGE";
    case ENOMEM: return "ENOMEM";
    case EIO: return "EIO";
    case ENOSYS: return "ENOSYS";
    default: snprintf (buf, sizeof buf, "E%d", e); return buf;
  }
}

#define MAXTOK 64
static int split (char *line, char **tok)
{
  int n = 0;
  char *save = NULL;   /* strtok_r: the harness itself must be thread-safe for the MT op */
  for (char *p = strtok_r (line, " \n", &save); p && n < MAXTOK; p = strtok_r (NULL, " \n", &save)) tok[n++] = p;
  return n;
}

#include "ops_gensalt.h"
#include "ops_crypt.h"
#ifdef XC_HEAP
#include "ops_heap.h"
#else
static int op_heap_dispatch (int n, char **tok) { (void)n; (void)tok; return 0; }
#endif
#ifdef XC_SO
#include "ops_so.h"
static int op_prim_dispatch (int n, char **tok) { return op_so_dispatch (n, tok); }
#elif defined XC_NO_PRIM
static int op_prim_dispatch (int n, char **tok) { (void)n; (void)tok; return 0; }
#else
#include "ops_prim.h"
#endif

static void dispatch (int n, char **tok)
{
  if (!strcmp (tok[0], "G")) op_gensalt (n, tok);
  else if (!strcmp (tok[0], "K")) op_checksalt (n, tok);
  else if (!strcmp (tok[0], "KE")) op_checksalt_enum (n, tok);
  else if (!strcmp (tok[0], "P")) op_preferred (n, tok);
  else if (!strcmp (tok[0], "CFG")) printf ("ok\n");
  else if (!strcmp (tok[0], "ERRNO") && n >= 2)
    { entry_errno = !strcmp (tok[1], "ERANGE") ? ERANGE : !strcmp (tok[1], "EINVAL") ? EINVAL : !strcmp (tok[1], "ENOMEM") ? ENOMEM : !strcmp (tok[1], "keep") ? -1 : atoi (tok[1]); printf ("ok\n"); }
  else if (!strcmp (tok[0], "OS")) { int isn; size_t l; unsigned char *p = unhex (tok[1], &l, &isn);
      os_real = isn; os_len = l > sizeof os_bytes ? sizeof os_bytes : l; os_pos = 0;
      if (p) { memcpy (os_bytes, p, os_len); free (p); } printf ("ok\n"); }
  else if (op_heap_dispatch (n, tok)) ;
  else if (op_crypt_dispatch (n, tok)) ;
  else if (op_prim_dispatch (n, tok)) ;
  else printf ("bad-op\n");
}

/* MT <nthreads> <k>: the next k lines are executed first by this thread, then concurrently by nthreads threads,
   each on its own (thread-local) objects; every thread's transcript must equal the sequential one.
   -> mt threads=<n> ops=<k> equal=<0|1> firstdiff=<thread>:<line|-> */
struct mtjob { char **lines; int k; char *transcript; size_t tlen; };
static void run_lines (char **lines, int k)
{
  for (int i = 0; i < k; i++)
    {
      char *copy = strdup (lines[i]); char *tok[MAXTOK]; int n = split (copy, tok);
      if (n) dispatch (n, tok);
      free (copy);
    }
}
static void *mt_thread (void *arg)
{
  struct mtjob *j = arg;
  cur_out = open_memstream (&j->transcript, &j->tlen);
  run_lines (j->lines, j->k);
  fclose (cur_out); cur_out = NULL;
  for (int i = 0; i < NOBJ; i++) { free (objs[i].base); objs[i].base = NULL; objs[i].d = NULL; }
  return NULL;
}

int main (int argc, char **argv)
{
  (void)argc; (void)argv;
  char *line = NULL; size_t cap = 0; ssize_t got;
  setvbuf (stdout, NULL, _IOFBF, 1 << 16);
  while ((got = getline (&line, &cap, stdin)) > 0)
    {
      char *tok[MAXTOK];
      if (line[0] == '#') continue;
      char *copy = strdup (line);
      int n = split (copy, tok);
      if (n == 0) { free (copy); continue; }
      if (!strcmp (tok[0], "MT") && n >= 3)
        {
          int nt = atoi (tok[1]), k = atoi (tok[2]);
          char **lines = calloc ((size_t)k, sizeof *lines);
          for (int i = 0; i < k; i++) { char *l = NULL; size_t c = 0; if (getline (&l, &c, stdin) <= 0) l = strdup (""); lines[i] = l; }
          struct mtjob seq = { lines, k, NULL, 0 };
          mt_thread (&seq);
          struct mtjob *jobs = calloc ((size_t)nt, sizeof *jobs); pthread_t *th = calloc ((size_t)nt, sizeof *th);
          for (int t = 0; t < nt; t++) { jobs[t].lines = lines; jobs[t].k = k; pthread_create (&th[t], NULL, mt_thread, &jobs[t]); }
          int equal = 1, dt = -1;
          for (int t = 0; t < nt; t++) { pthread_join (th[t], NULL);
            if (jobs[t].tlen != seq.tlen || memcmp (jobs[t].transcript, seq.transcript, seq.tlen)) { if (equal) dt = t; equal = 0; } }
          printf ("mt threads=%d ops=%d equal=%d firstdiff=%d\n", nt, k, equal, dt);
          for (int t = 0; t < nt; t++) free (jobs[t].transcript);
          free (seq.transcript); free (jobs); free (th);
          for (int i = 0; i < k; i++) free (lines[i]);
          free (lines);
        }
      else if (!strcmp (tok[0], "MTD") && n >= 4)
        {
          /* MTD <nthreads> <k> <rep>: the next nthreads*k lines are k lines for each thread (DIFFERENT requests per thread); every thread's
             lines are first executed alone, <rep> times over, then all threads run concurrently; each transcript must equal the one obtained alone:
             shared state outside the caller's objects (also inside libc, which ThreadSanitizer does not instrument) shows as a difference */
          int nt = atoi (tok[1]), k = atoi (tok[2]), rep = atoi (tok[3]);
          char **lines = calloc ((size_t)nt * (size_t)k * (size_t)rep, sizeof *lines);
          for (int t = 0; t < nt; t++)
            for (int i = 0; i < k; i++)
              { char *l = NULL; size_t c = 0; if (getline (&l, &c, stdin) <= 0) l = strdup ("");
                for (int r = 0; r < rep; r++) lines[((size_t)t * (size_t)rep + (size_t)r) * (size_t)k + (size_t)i] = l; }
          struct mtjob *ref = calloc ((size_t)nt, sizeof *ref), *jobs = calloc ((size_t)nt, sizeof *jobs); pthread_t *th = calloc ((size_t)nt, sizeof *th);
          for (int t = 0; t < nt; t++) { ref[t].lines = lines + (size_t)t * (size_t)rep * (size_t)k; ref[t].k = k * rep; mt_thread (&ref[t]); }
          for (int t = 0; t < nt; t++) { jobs[t].lines = ref[t].lines; jobs[t].k = k * rep; pthread_create (&th[t], NULL, mt_thread, &jobs[t]); }
          int equal = 1, dt = -1;
          for (int t = 0; t < nt; t++) { pthread_join (th[t], NULL);
            if (jobs[t].tlen != ref[t].tlen || memcmp (jobs[t].transcript, ref[t].transcript, ref[t].tlen)) { if (equal) dt = t; equal = 0; } }
          printf ("mt threads=%d ops=%d equal=%d firstdiff=%d\n", nt, k * rep, equal, dt);
          for (int t = 0; t < nt; t++) { free (jobs[t].transcript); free (ref[t].transcript); }
          for (int t = 0; t < nt; t++) for (int i = 0; i < k; i++) free (lines[(size_t)t * (size_t)rep * (size_t)k + (size_t)i]);
          free (lines); free (ref); free (jobs); free (th);
        }
      else dispatch (n, tok);
      free (copy);
    }
  fflush (stdout);
  return 0;
}

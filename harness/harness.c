/* C side of the line protocol.  Compiled on every run against objects built
   from /repo/lib/*.c (current working tree) and the regenerated headers.
   One operation per input line, one canonical result line per operation.  */
#define _GNU_SOURCE
#include <stdio.h>
#include <stdlib.h>
#include <string.h>
#include <stdint.h>
#include <errno.h>
#include <setjmp.h>
#include <stddef.h>
#include <pthread.h>
#ifdef XC_SO
#include <dlfcn.h>
#include "crypt.h"
#else
#include "crypt-port.h"
#include "crypt.h"
#endif

/* ---------- abort / assert interception ---------- */
static __thread jmp_buf * volatile abort_jmp;
static __thread volatile int in_call;

void __assert_fail (const char *a, const char *f, unsigned int l, const char *fn)
{
  (void)a; (void)f; (void)l; (void)fn;
  if (in_call && abort_jmp) longjmp (*abort_jmp, 1);
  fprintf (stderr, "assertion outside call: %s %s:%u in_call=%d jmp=%p\n", a, f, l, in_call, (void*)abort_jmp);
  _exit (99);
}

/* ---------- deterministic OS randomness (interposes libc) ---------- */
static unsigned char os_bytes[512];
static size_t os_len, os_pos;
static int os_real;            /* 1: use the real CSPRNG */
static unsigned long os_calls;
#ifdef XC_SO
static void __real_arc4random_buf (void *b, size_t n) { (void)b; (void)n; }
#else
extern void __real_arc4random_buf (void *, size_t);
#endif
void __wrap_arc4random_buf (void *buf, size_t n)
{
  os_calls++;
  if (os_real) { __real_arc4random_buf (buf, n); return; }
  unsigned char *b = buf;
  for (size_t i = 0; i < n; i++) b[i] = os_pos < os_len ? os_bytes[os_pos++] : 0;
}

/* ---------- helpers ---------- */
static int hexval (int c)
{
  if (c >= '0' && c <= '9') return c - '0';
  if (c >= 'a' && c <= 'f') return c - 'a' + 10;
  if (c >= 'A' && c <= 'F') return c - 'A' + 10;
  return -1;
}

/* decode "-" (NULL), "." (empty) or hex; returns malloc'd exact-size NUL-terminated
   buffer (len+1 bytes) or NULL.  *len = length.  */
static unsigned char *unhex (const char *s, size_t *len, int *isnull)
{
  *isnull = 0; *len = 0;
  if (!strcmp (s, "-")) { *isnull = 1; return NULL; }
  if (!strcmp (s, ".")) { unsigned char *p = malloc (1); p[0] = 0; return p; }
  size_t n = strlen (s) / 2;
  unsigned char *p = malloc (n + 1);
  for (size_t i = 0; i < n; i++) p[i] = (unsigned char)(hexval (s[2*i]) * 16 + hexval (s[2*i+1]));
  p[n] = 0; *len = n;
  return p;
}

static void puthex (const unsigned char *p, size_t n)
{
  if (n == 0) { putchar ('.'); return; }
  for (size_t i = 0; i < n; i++) printf ("%02x", p[i]);
}

static const char *errname (int e)
{
  static char buf[32];
  switch (e) {
    case 0: return "0";
    case EINVAL: return "EINVAL";
    case ERANGE: return "ERANGE";
    case ENOMEM: return "ENOMEM";
    case EIO: return "EIO";
    case ENOSYS: return "ENOSYS";
    default: snprintf (buf, sizeof buf, "E%d", e); return buf;
  }
}

#define MAXTOK 64
static int split (char *line, char **tok)
{
  int n = 0;
  for (char *p = strtok (line, " \n"); p && n < MAXTOK; p = strtok (NULL, " \n")) tok[n++] = p;
  return n;
}

#include "ops_gensalt.h"
#include "ops_crypt.h"
#ifdef XC_HEAP
#include "ops_heap.h"
#else
static int op_heap_dispatch (int n, char **tok) { (void)n; (void)tok; return 0; }
#endif
#ifdef XC_SO
#include "ops_so.h"
static int op_prim_dispatch (int n, char **tok) { return op_so_dispatch (n, tok); }
#elif defined XC_NO_PRIM
static int op_prim_dispatch (int n, char **tok) { (void)n; (void)tok; return 0; }
#else
#include "ops_prim.h"
#endif

int main (int argc, char **argv)
{
  (void)argc; (void)argv;
  char *line = NULL; size_t cap = 0; ssize_t got;
  setvbuf (stdout, NULL, _IOFBF, 1 << 16);
  while ((got = getline (&line, &cap, stdin)) > 0)
    {
      char *tok[MAXTOK];
      if (line[0] == '#') continue;
      int n = split (line, tok);
      if (n == 0) continue;
      if (!strcmp (tok[0], "G")) op_gensalt (n, tok);
      else if (!strcmp (tok[0], "K")) op_checksalt (n, tok);
      else if (!strcmp (tok[0], "KE")) op_checksalt_enum (n, tok);
      else if (!strcmp (tok[0], "P")) op_preferred (n, tok);
      else if (!strcmp (tok[0], "CFG")) printf ("ok\n");
      else if (!strcmp (tok[0], "OS")) { int isn; size_t l; unsigned char *p = unhex (tok[1], &l, &isn);
          os_real = isn; os_len = l > sizeof os_bytes ? sizeof os_bytes : l; os_pos = 0;
          if (p) { memcpy (os_bytes, p, os_len); free (p); } printf ("ok\n"); }
      else if (op_heap_dispatch (n, tok)) ;
      else if (op_crypt_dispatch (n, tok)) ;
      else if (op_prim_dispatch (n, tok)) ;
      else printf ("bad-op\n");
    }
  fflush (stdout);
  return 0;
}

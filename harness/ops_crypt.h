static int op_crypt_dispatch (int n, char **tok) { (void)n; (void)tok; return 0; }

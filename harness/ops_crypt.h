/* crypt-family ops on shared data objects.

   O <id> <fill:z|f|r|p> <align 0..15> [seed]   (re)create object <id> (0..7); p = 0x5a pattern
   C <entry:r|rn|st|ra> <id> <phrase> <setting> [size]
     -> ret=<NULL|out|other> errno=<..> out=<hex|unterminated> wz=<0|1> wu=<0|1> app=<0|1> abort=<0|1>
*/
#include <alloca.h>
#define NOBJ 8
#if !defined XC_SO && !defined XC_NO_PRIM
# include "alg-sha1.h"
# include "alg-sha256.h"
# define XC_HAVE_DIGESTS 1
#endif
struct objslot { unsigned char *base; struct crypt_data *d; void *ra_data; int ra_size; int align; };
#define XC_TAIL 32   /* guard bytes behind the object: libc's explicit_bzero / memset are not always intercepted by the sanitizer, a canary sees them all */
static __thread struct objslot objs[NOBJ];

static uint64_t sm64 (uint64_t *s)
{
  uint64_t z = (*s += 0x9e3779b97f4a7c15ULL);
  z = (z ^ (z >> 30)) * 0xbf58476d1ce4e5b9ULL;
  z = (z ^ (z >> 27)) * 0x94d049bb133111ebULL;
  return z ^ (z >> 31);
}

static __thread int obj_quiet;
static void (*crypt_suffix) (void);
static void op_obj (int n, char **tok)
{
  if (n < 4) { printf ("bad-op\n"); return; }
  int id = atoi (tok[1]) % NOBJ; char fill = tok[2][0]; int align = atoi (tok[3]) & 15;
  uint64_t seed = n > 4 ? strtoull (tok[4], NULL, 10) : 1;
  free (objs[id].base);
  /* the object sits at offset `align` of a 16-byte aligned block, `align` guard bytes in front of it and XC_TAIL behind it, all checked after
     every call (`edge=`); writes beyond the guard run into the sanitizer's redzone.  (An earlier version rounded the block up to a multiple of
     16 without guards, which left exactly 16 - align bytes of unchecked slack behind the object, and relied on the sanitizer, which does not
     see writes made by libc's explicit_bzero: seeded/C04h.) */
  { void *blk = NULL; if (posix_memalign (&blk, 16, sizeof (struct crypt_data) + (size_t)align + XC_TAIL)) { printf ("bad-op\n"); return; } objs[id].base = blk; }
  objs[id].align = align;
  memset (objs[id].base, 0xa7, (size_t)align);
  if (XC_TAIL) memset (objs[id].base + align + sizeof (struct crypt_data), 0xa7, XC_TAIL);
  objs[id].d = (struct crypt_data *)(objs[id].base + align);
  unsigned char *p = (unsigned char *)objs[id].d;
  for (size_t i = 0; i < sizeof (struct crypt_data); i++)
    p[i] = fill == 'z' ? 0 : fill == 'f' ? 0xff : fill == 'p' ? 0x5a : (unsigned char)sm64 (&seed);
  if (!obj_quiet) printf ("ok\n");
}

/* does `hay` contain the phrase in one of the encodings the algorithms use? (raw, UCS-2LE, DES key bytes (c << 1),
   HMAC inner / outer pad (c ^ 0x36, c ^ 0x5c), byte-swapped 32-bit words) */
static int find_bytes (const unsigned char *hay, size_t hl, const unsigned char *nd, size_t nl)
{ return nl && hl >= nl && memmem (hay, hl, nd, nl) != NULL; }
static int phrase_traces (const unsigned char *hay, size_t hl, const unsigned char *ph, size_t pl)
{
  if (pl < 6) return 0;
  unsigned char *t = malloc (2 * pl + 8); int hit = 0;
  if (find_bytes (hay, hl, ph, pl)) hit |= 1;
  for (size_t i = 0; i < pl; i++) { t[2*i] = ph[i]; t[2*i+1] = 0; }
  if (find_bytes (hay, hl, t, 2 * pl)) hit |= 2;
  size_t k = pl < 8 ? pl : 8;
  for (size_t i = 0; i < k; i++) t[i] = (unsigned char)(ph[i] << 1);
  if (k >= 6 && find_bytes (hay, hl, t, k)) hit |= 4;
  for (size_t i = 0; i < pl; i++) t[i] = ph[i] ^ 0x36;
  if (find_bytes (hay, hl, t, pl)) hit |= 8;
  for (size_t i = 0; i < pl; i++) t[i] = ph[i] ^ 0x5c;
  if (find_bytes (hay, hl, t, pl)) hit |= 8;
  size_t w = pl & ~(size_t)3;
  for (size_t i = 0; i < w; i += 4) { t[i] = ph[i+3]; t[i+1] = ph[i+2]; t[i+2] = ph[i+1]; t[i+3] = ph[i]; }
  if (w >= 8 && find_bytes (hay, hl, t, w)) hit |= 16;
  free (t);
  return hit;
}

/* ---------- stack clause (C09): windowed scan of the stack region the call used ----------
   Before the call, every 8-byte window of the passphrase in every encoding the algorithms use (raw, UCS-2LE, c << 1,
   c ^ 0x36, c ^ 0x5c, byte-swapped 32-bit words at the four alignments, byte-swapped 64-bit words at the eight
   alignments) goes into a hash set on the heap; low-entropy windows (fewer than 5 distinct bytes) are skipped.  The
   region below this frame is then poisoned, the call runs, and the same region is searched for any member of the set:
   a partial copy (a suffix of the HMAC pad, a single message block) is found as well as a complete one.
   Only meaningful for a library built at -O0 (the property's clause); enabled by XC_STACKSCAN=1.  */
#define STACK_PROBE (192 * 1024)
#define WSET (1u << 16)
static __thread uint64_t *wset_v; static __thread unsigned char *wset_enc; static __thread unsigned wset_n;
static void wset_add (const unsigned char *w, unsigned enc)
{
  int seen[256] = {0}, distinct = 0;
  for (int i = 0; i < 8; i++) if (!seen[w[i]]++) distinct++;
  if (distinct < 5 || wset_n > WSET / 2) return;
  uint64_t v; memcpy (&v, w, 8); if (v == 0) return;
  unsigned h = (unsigned)((v * 0x9e3779b97f4a7c15ULL) >> 48) & (WSET - 1);
  while (wset_v[h] && wset_v[h] != v) h = (h + 1) & (WSET - 1);
  if (!wset_v[h]) { wset_v[h] = v; wset_enc[h] = (unsigned char)enc; wset_n++; }
}
static void wset_seq (const unsigned char *t, size_t l, unsigned enc)
{ for (size_t i = 0; i + 8 <= l; i++) wset_add (t + i, enc); }
static void wset_build (const unsigned char *ph, size_t pl)
{
  if (!wset_v) { wset_v = malloc (WSET * sizeof *wset_v); wset_enc = malloc (WSET); }
  memset (wset_v, 0, WSET * sizeof *wset_v); wset_n = 0;
  if (pl < 8) return;
  unsigned char *t = malloc (2 * pl + 16);
  wset_seq (ph, pl, 1);
  for (size_t i = 0; i < pl; i++) { t[2*i] = ph[i]; t[2*i+1] = 0; }
  wset_seq (t, 2 * pl, 2);
  for (size_t i = 0; i < pl; i++) t[i] = (unsigned char)(ph[i] << 1);
  wset_seq (t, pl, 3);
  for (size_t i = 0; i < pl; i++) t[i] = ph[i] ^ 0x36;
  wset_seq (t, pl, 4);
  for (size_t i = 0; i < pl; i++) t[i] = ph[i] ^ 0x5c;
  wset_seq (t, pl, 5);
  for (size_t a = 0; a < 4; a++)
    { size_t l = 0; for (size_t i = a; i + 4 <= pl; i += 4) { t[l++] = ph[i+3]; t[l++] = ph[i+2]; t[l++] = ph[i+1]; t[l++] = ph[i]; } wset_seq (t, l, 6); }
  for (size_t a = 0; a < 8; a++)
    { size_t l = 0; for (size_t i = a; i + 8 <= pl; i += 8) for (int k = 7; k >= 0; k--) t[l++] = ph[i + (size_t)k]; wset_seq (t, l, 7); }
  explicit_bzero (t, 2 * pl + 16); free (t);
#ifdef XC_HAVE_DIGESTS
  /* the key HMAC really uses for a phrase longer than its block: H(phrase) - as good as the phrase for whoever finds it (seeded/C09h) */
  if (pl > 64)
    {
      unsigned char dg[32]; struct sha1_ctx c1;
      sha1_init_ctx (&c1); sha1_process_bytes (ph, &c1, pl); sha1_finish_ctx (&c1, dg); wset_seq (dg, 20, 8);
      SHA256_Buf (ph, pl, dg); wset_seq (dg, 32, 8);
      explicit_bzero (dg, sizeof dg); explicit_bzero (&c1, sizeof c1);
    }
#endif
}
static __attribute__((noinline)) int wset_lookup (uint64_t v)
{
  unsigned h = (unsigned)((v * 0x9e3779b97f4a7c15ULL) >> 48) & (WSET - 1);
  while (wset_v[h]) { if (wset_v[h] == v) return wset_enc[h]; h = (h + 1) & (WSET - 1); }
  return 0;
}
static __attribute__((noinline)) void stack_poison (void)
{ volatile unsigned char *p = alloca (STACK_PROBE); for (size_t i = 0; i < STACK_PROBE; i++) p[i] = 0xEE; }
/* returns a mask of the encodings found (bit enc-1) and the depth of the first hit below this frame */
static __thread long stk_depth;
static __attribute__((noinline)) int stack_scan (void)
{
  unsigned char *p = alloca (STACK_PROBE); __asm__ volatile ("" : : "r"(p) : "memory");
  int mask = 0; stk_depth = -1;
  if (!wset_n) return 0;
  for (size_t i = 0; i + 8 <= STACK_PROBE; i++)
    {
      uint64_t v; memcpy (&v, p + i, 8);
      if (v == 0 || v == 0xEEEEEEEEEEEEEEEEULL) continue;
      int e = wset_lookup (v);
      if (e)
        {
          mask |= 1 << (e - 1);
          if (stk_depth < 0)
            {
              stk_depth = (long)(STACK_PROBE - i);
              if (getenv ("XC_STACKDUMP"))
                { size_t a = i >= 64 ? i - 64 : 0, b = i + 96 <= STACK_PROBE ? i + 96 : STACK_PROBE;
                  fprintf (stderr, "stack hit enc=%d depth=%ld addr=%p:", e, stk_depth, (void *)(p + i));
                  for (size_t k = a; k < b; k++) fprintf (stderr, "%s%02x", k == i ? " [" : k == i + 8 ? "] " : (k % 8 == 0 ? " " : ""), p[k]);
                  fprintf (stderr, "\n"); }
            }
        }
    }
  return mask;
}

static int scratch_zero (const struct crypt_data *d)
{
  for (size_t i = 0; i < sizeof d->internal; i++) if (d->internal[i]) return 0;
  for (size_t i = 0; i < sizeof d->reserved; i++) if (d->reserved[i]) return 0;
  return d->initialized == 0;
}

static void op_crypt (int n, char **tok)
{
  if (n < 5) { printf ("bad-op\n"); return; }
  const char *entry = tok[1];
  int id = atoi (tok[2]) % NOBJ;
  int pnull, snull; size_t plen, slen;
  unsigned char *p0 = unhex (tok[3], &plen, &pnull), *s0 = unhex (tok[4], &slen, &snull);
  /* exact-size copies (length + terminator) so that over-reads hit the redzone under ASan */
  char *phrase = NULL, *setting = NULL;
  if (!pnull) { phrase = malloc (plen + 1); memcpy (phrase, p0, plen + 1); }
  if (!snull) { setting = malloc (slen + 1); memcpy (setting, s0, slen + 1); }
  free (p0); free (s0);
  long size = n > 5 ? atol (tok[5]) : (long)sizeof (struct crypt_data);
  int is_st = !strcmp (entry, "st");
  if (!is_st && !objs[id].d) { char *t[] = { "O", tok[2], "z", "0" }; obj_quiet = 1; op_obj (4, t); obj_quiet = 0; }
  struct crypt_data *d = is_st ? NULL : objs[id].d;
  static __thread struct crypt_data *snap;
  if (!snap) snap = malloc (sizeof *snap);
  if (d) memcpy (snap, d, sizeof *snap);
  char *ret = NULL; int e = 0, aborted = 0;
  static int stackscan = -1; volatile int stk_mask = 0;
  if (stackscan < 0) stackscan = getenv ("XC_STACKSCAN") != NULL;
  if (stackscan) { wset_build ((unsigned char *)phrase, phrase ? plen : 0); stack_poison (); }
  jmp_buf jb; abort_jmp = &jb;
  if (!setjmp (jb))
    {
      in_call = 1; errno = ENTRY_ERRNO;
      if (!strcmp (entry, "r")) ret = crypt_r (phrase, setting, d);
      else if (!strcmp (entry, "rn")) ret = crypt_rn (phrase, setting, d, (int)size);
      else if (is_st) ret = crypt (phrase, setting);
      else if (!strcmp (entry, "ra"))
        {
          ret = crypt_ra (phrase, setting, &objs[id].ra_data, &objs[id].ra_size);
        }
      e = errno; last_errno = e; in_call = 0;
      /* scan at once: nothing else may run on this part of the stack between the return and the scan */
      if (stackscan && phrase) stk_mask = stack_scan ();
    }
  else { in_call = 0; aborted = 1; }
  if (!strcmp (entry, "ra")) { d = objs[id].ra_data; memset (snap, 0, sizeof *snap); }
  if (is_st && ret) { d = (struct crypt_data *)ret; }
  printf ("ret=%s errno=%s out=", !ret ? "NULL" : (d && ret == d->output) ? "out" : "other", errname (e));
  if (!d) printf ("?");
  else { size_t l = strnlen (d->output, sizeof d->output); if (l == sizeof d->output) printf ("unterminated"); else puthex ((unsigned char *)d->output, l); }
  if (d && !is_st)
    printf (" wz=%d wu=%d app=%d", scratch_zero (d),
            !memcmp (d->internal, snap->internal, sizeof d->internal) && !memcmp (d->reserved, snap->reserved, sizeof d->reserved) && d->initialized == snap->initialized,
            !memcmp (d->setting, snap->setting, sizeof d->setting) && !memcmp (d->input, snap->input, sizeof d->input));
  else if (d) printf (" wz=%d wu=? app=?", scratch_zero (d));
  else printf (" wz=? wu=? app=?");
  printf (" abort=%d", aborted);
  if (d && !is_st && d == objs[id].d && objs[id].base)
    { /* the bytes around the caller's object */
      int edge = 1; unsigned char *b = objs[id].base;
      for (int i = 0; i < objs[id].align; i++) if (b[i] != 0xa7) edge = 0;
      for (int i = 0; i < XC_TAIL; i++) if (b[objs[id].align + sizeof (struct crypt_data) + (size_t)i] != 0xa7) edge = 0;
      printf (" edge=%d", edge);
    }
  if (d && phrase)
    { /* traces of the passphrase left in the object outside the application-owned fields */
      int tr = phrase_traces ((unsigned char *)d->output, sizeof d->output, (unsigned char *)phrase, plen)
             | phrase_traces ((unsigned char *)d->reserved, sizeof (struct crypt_data) - offsetof (struct crypt_data, reserved), (unsigned char *)phrase, plen);
      printf (" ph=%d", tr);
      if (stackscan) printf (" stk=%d stkdepth=%ld", stk_mask, stk_depth);
    }
  if (crypt_suffix) crypt_suffix ();
  printf ("\n");
  free (phrase); free (setting);
}

static int op_crypt_dispatch (int n, char **tok)
{
  if (!strcmp (tok[0], "O")) { op_obj (n, tok); return 1; }
  if (!strcmp (tok[0], "C")) { op_crypt (n, tok); return 1; }
  return 0;
}

/* crypt-family ops on shared data objects.

   O <id> <fill:z|f|r|p> <align 0..15> [seed]   (re)create object <id> (0..7); p = 0x5a pattern
   C <entry:r|rn|st|ra> <id> <phrase> <setting> [size]
     -> ret=<NULL|out|other> errno=<..> out=<hex|unterminated> wz=<0|1> wu=<0|1> app=<0|1> abort=<0|1>
*/
#define NOBJ 8
struct objslot { unsigned char *base; struct crypt_data *d; void *ra_data; int ra_size; };
static __thread struct objslot objs[NOBJ];

static uint64_t sm64 (uint64_t *s)
{
  uint64_t z = (*s += 0x9e3779b97f4a7c15ULL);
  z = (z ^ (z >> 30)) * 0xbf58476d1ce4e5b9ULL;
  z = (z ^ (z >> 27)) * 0x94d049bb133111ebULL;
  return z ^ (z >> 31);
}

static __thread int obj_quiet;
static void (*crypt_suffix) (void);
static void op_obj (int n, char **tok)
{
  if (n < 4) { printf ("bad-op\n"); return; }
  int id = atoi (tok[1]) % NOBJ; char fill = tok[2][0]; int align = atoi (tok[3]) & 15;
  uint64_t seed = n > 4 ? strtoull (tok[4], NULL, 10) : 1;
  free (objs[id].base);
  /* exact-size block: 16-byte aligned base + align offset, nothing after the object */
  objs[id].base = aligned_alloc (16, ((sizeof (struct crypt_data) + align + 15) / 16) * 16);
  /* place the object so that it ENDS at the end of the block minus padding is not possible for
     every align; keep it simple: object at base+align */
  objs[id].d = (struct crypt_data *)(objs[id].base + align);
  unsigned char *p = (unsigned char *)objs[id].d;
  for (size_t i = 0; i < sizeof (struct crypt_data); i++)
    p[i] = fill == 'z' ? 0 : fill == 'f' ? 0xff : fill == 'p' ? 0x5a : (unsigned char)sm64 (&seed);
  if (!obj_quiet) printf ("ok\n");
}

static int scratch_zero (const struct crypt_data *d)
{
  for (size_t i = 0; i < sizeof d->internal; i++) if (d->internal[i]) return 0;
  for (size_t i = 0; i < sizeof d->reserved; i++) if (d->reserved[i]) return 0;
  return d->initialized == 0;
}

static void op_crypt (int n, char **tok)
{
  if (n < 5) { printf ("bad-op\n"); return; }
  const char *entry = tok[1];
  int id = atoi (tok[2]) % NOBJ;
  int pnull, snull; size_t plen, slen;
  unsigned char *p0 = unhex (tok[3], &plen, &pnull), *s0 = unhex (tok[4], &slen, &snull);
  /* exact-size copies (length + terminator) so that over-reads hit the redzone under ASan */
  char *phrase = NULL, *setting = NULL;
  if (!pnull) { phrase = malloc (plen + 1); memcpy (phrase, p0, plen + 1); }
  if (!snull) { setting = malloc (slen + 1); memcpy (setting, s0, slen + 1); }
  free (p0); free (s0);
  long size = n > 5 ? atol (tok[5]) : (long)sizeof (struct crypt_data);
  int is_st = !strcmp (entry, "st");
  if (!is_st && !objs[id].d) { char *t[] = { "O", tok[2], "z", "0" }; obj_quiet = 1; op_obj (4, t); obj_quiet = 0; }
  struct crypt_data *d = is_st ? NULL : objs[id].d;
  static __thread struct crypt_data *snap;
  if (!snap) snap = malloc (sizeof *snap);
  if (d) memcpy (snap, d, sizeof *snap);
  char *ret = NULL; int e = 0, aborted = 0;
  jmp_buf jb; abort_jmp = &jb;
  if (!setjmp (jb))
    {
      in_call = 1; errno = 0;
      if (!strcmp (entry, "r")) ret = crypt_r (phrase, setting, d);
      else if (!strcmp (entry, "rn")) ret = crypt_rn (phrase, setting, d, (int)size);
      else if (is_st) ret = crypt (phrase, setting);
      else if (!strcmp (entry, "ra"))
        {
          ret = crypt_ra (phrase, setting, &objs[id].ra_data, &objs[id].ra_size);
        }
      e = errno; in_call = 0;
    }
  else { in_call = 0; aborted = 1; }
  if (!strcmp (entry, "ra")) { d = objs[id].ra_data; memset (snap, 0, sizeof *snap); }
  if (is_st && ret) { d = (struct crypt_data *)ret; }
  printf ("ret=%s errno=%s out=", !ret ? "NULL" : (d && ret == d->output) ? "out" : "other", errname (e));
  if (!d) printf ("?");
  else { size_t l = strnlen (d->output, sizeof d->output); if (l == sizeof d->output) printf ("unterminated"); else puthex ((unsigned char *)d->output, l); }
  if (d && !is_st)
    printf (" wz=%d wu=%d app=%d", scratch_zero (d),
            !memcmp (d->internal, snap->internal, sizeof d->internal) && !memcmp (d->reserved, snap->reserved, sizeof d->reserved) && d->initialized == snap->initialized,
            !memcmp (d->setting, snap->setting, sizeof d->setting) && !memcmp (d->input, snap->input, sizeof d->input));
  else if (d) printf (" wz=%d wu=? app=?", scratch_zero (d));
  else printf (" wz=? wu=? app=?");
  printf (" abort=%d", aborted);
  if (crypt_suffix) crypt_suffix ();
  printf ("\n");
  free (phrase); free (setting);
}

static int op_crypt_dispatch (int n, char **tok)
{
  if (!strcmp (tok[0], "O")) { op_obj (n, tok); return 1; }
  if (!strcmp (tok[0], "C")) { op_crypt (n, tok); return 1; }
  return 0;
}

static int op_prim_dispatch (int n, char **tok) { (void)n; (void)tok; return 0; }

/* internal primitives: digests, MACs, PBKDF2, DES block function.
   H <alg> <align> <chunk>...      -> d=<hex> ctxzero=<0|1>
   HM <alg> <key> <text>           -> d=<hex>
   PB <pw> <salt> <c> <dklen>      -> d=<hex>
   DB <key8> <salt> <count> <block8> <dec> -> d=<hex>                                         */
#include "alg-md4.h"
#include "alg-md5.h"
#include "alg-sha1.h"
#include "alg-sha256.h"
#include "alg-sha512.h"
#include "alg-hmac-sha1.h"
#include "alg-gost3411-2012-hmac.h"
#include "alg-des.h"

static int all_zero (const void *p, size_t n)
{ const unsigned char *b = p; for (size_t i = 0; i < n; i++) if (b[i]) return 0; return 1; }

/* copy into an exact-size block at the requested misalignment */
static unsigned char *place (const unsigned char *src, size_t len, int align, unsigned char **base)
{
  *base = malloc (len + 16 + 1);
  unsigned char *p = *base + (align & 15);
  memcpy (p, src, len);
  return p;
}

static void op_hash (int n, char **tok)
{
  if (n < 3) { printf ("bad-op\n"); return; }
  const char *alg = tok[1]; int align = atoi (tok[2]);
  unsigned char dig[64]; size_t dl = 0; int cz = 0;
  MD4_CTX c4; MD5_CTX c5; struct sha1_ctx c1; SHA256_CTX c256; SHA512_CTX c512; GOST34112012Context cg;
  int a = !strcmp (alg, "md4") ? 0 : !strcmp (alg, "md5") ? 1 : !strcmp (alg, "sha1") ? 2 : !strcmp (alg, "sha256") ? 3
        : !strcmp (alg, "sha512") ? 4 : !strcmp (alg, "gost256") ? 5 : !strcmp (alg, "gost512") ? 6 : -1;
  if (a < 0) { printf ("bad-op\n"); return; }
  switch (a) {
    case 0: MD4_Init (&c4); break; case 1: MD5_Init (&c5); break; case 2: sha1_init_ctx (&c1); break;
    case 3: SHA256_Init (&c256); break; case 4: SHA512_Init (&c512); break;
    case 5: GOST34112012Init (&cg, 256); break; case 6: GOST34112012Init (&cg, 512); break; }
  for (int i = 3; i < n; i++)
    {
      int isn; size_t l; unsigned char *raw = unhex (tok[i], &l, &isn), *base;
      unsigned char *p = place (raw ? raw : (unsigned char *)"", l, align + i, &base);
      switch (a) {
        case 0: MD4_Update (&c4, p, l); break; case 1: MD5_Update (&c5, p, l); break; case 2: sha1_process_bytes (p, &c1, l); break;
        case 3: SHA256_Update (&c256, p, l); break; case 4: SHA512_Update (&c512, p, l); break;
        default: GOST34112012Update (&cg, p, l); break; }
      free (base); free (raw);
    }
  switch (a) {
    case 0: MD4_Final (dig, &c4); dl = 16; cz = all_zero (&c4, sizeof c4); break;
    case 1: MD5_Final (dig, &c5); dl = 16; cz = all_zero (&c5, sizeof c5); break;
    case 2: sha1_finish_ctx (&c1, dig); dl = 20; cz = all_zero (&c1, sizeof c1); break;
    case 3: SHA256_Final (dig, &c256); dl = 32; cz = all_zero (&c256, sizeof c256); break;
    case 4: SHA512_Final (dig, &c512); dl = 64; cz = all_zero (&c512, sizeof c512); break;
    case 5: GOST34112012Final (&cg, dig); dl = 32; cz = all_zero (&cg, sizeof cg); break;
    case 6: GOST34112012Final (&cg, dig); dl = 64; cz = all_zero (&cg, sizeof cg); break; }
  printf ("d="); puthex (dig, dl); printf (" ctxzero=%d\n", cz);
}

static void op_hmac (int n, char **tok)
{
  if (n < 4) { printf ("bad-op\n"); return; }
  int isn; size_t kl, tl; unsigned char *k0 = unhex (tok[2], &kl, &isn), *t0 = unhex (tok[3], &tl, &isn), *kb, *tb;
  unsigned char *k = place (k0 ? k0 : (unsigned char *)"", kl, 3, &kb), *t = place (t0 ? t0 : (unsigned char *)"", tl, 5, &tb);
  unsigned char dig[64]; size_t dl = 0;
  /* XC_STACKSCAN (library built at -O0): the key, its pads and - for a key longer than the block - the hashed key HMAC really uses must be gone
     from the stack region the primitive used when it returns */
  static int hscan = -1; volatile int hstk = 0;
  if (hscan < 0) hscan = getenv ("XC_STACKSCAN") != NULL;
  if (hscan) { wset_build (k, kl); stack_poison (); }
  if (!strcmp (tok[1], "sha1")) { hmac_sha1_process_data (t, tl, k, kl, dig); if (hscan) hstk = stack_scan (); dl = 20; }
  else if (!strcmp (tok[1], "sha256")) { HMAC_SHA256_Buf (k, kl, t, tl, dig); if (hscan) hstk = stack_scan (); dl = 32; }
  else if (!strcmp (tok[1], "gost256"))
    {
      if (kl < 32 || kl > 64) { printf ("d=precondition\n"); goto out; }
      gost_hmac_256_t gb; gost_hmac256 (k, kl, t, tl, dig, &gb); dl = 32;
      if (!all_zero (&gb, sizeof gb)) { printf ("d=NOTWIPED\n"); goto out; }
    }
  printf ("d="); puthex (dig, dl); if (hscan) printf (" stk=%d", hstk); printf ("\n");
out:
  free (kb); free (tb); free (k0); free (t0);
}

static void op_pbkdf2 (int n, char **tok)
{
  if (n < 5) { printf ("bad-op\n"); return; }
  int isn; size_t pl, sl; unsigned char *p0 = unhex (tok[1], &pl, &isn), *s0 = unhex (tok[2], &sl, &isn), *pb, *sb;
  unsigned char *p = place (p0 ? p0 : (unsigned char *)"", pl, 1, &pb), *s = place (s0 ? s0 : (unsigned char *)"", sl, 7, &sb);
  unsigned long c = strtoul (tok[3], 0, 10); size_t dk = strtoul (tok[4], 0, 10);
  unsigned char *out = malloc (dk ? dk : 1);
  PBKDF2_SHA256 (p, pl, s, sl, c, out, dk);
  printf ("d="); puthex (out, dk); printf ("\n");
  free (out); free (pb); free (sb); free (p0); free (s0);
}

static void op_desblock (int n, char **tok)
{
  if (n < 6) { printf ("bad-op\n"); return; }
  int isn; size_t kl, bl; unsigned char *k = unhex (tok[1], &kl, &isn), *b = unhex (tok[4], &bl, &isn);
  unsigned long salt = strtoul (tok[2], 0, 10), count = strtoul (tok[3], 0, 10); int dec = atoi (tok[5]);
  struct des_ctx ctx; unsigned char out[8];
  if (kl != 8 || bl != 8) { printf ("bad-op\n"); free (k); free (b); return; }
  des_set_key (&ctx, k); des_set_salt (&ctx, (uint32_t)salt);
  des_crypt_block (&ctx, out, b, (unsigned)count, dec != 0);
  printf ("d="); puthex (out, 8); printf ("\n");
  free (k); free (b);
}

static int op_prim_dispatch (int n, char **tok)
{
  if (!strcmp (tok[0], "H")) { op_hash (n, tok); return 1; }
  if (!strcmp (tok[0], "HM")) { op_hmac (n, tok); return 1; }
  if (!strcmp (tok[0], "PB")) { op_pbkdf2 (n, tok); return 1; }
  if (!strcmp (tok[0], "DB")) { op_desblock (n, tok); return 1; }
  return 0;
}

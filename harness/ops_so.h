/* ops that need the shared library: compat-only symbols bound by version (dlvsym), ABI facts.

   SK  <key8>                 setkey (static)            -> ok
   SKR <id> <key8>            setkey_r on object id      -> ok
   EN  <block8> <edflag> <noise>   encrypt (static)      -> d=<8 bytes> bits01=<0|1>
   ENR <id> <block8> <edflag> <noise>                    -> d=<8 bytes> bits01=<0|1>
   CV <sym> <ver> <phrase> <setting>   crypt-like symbol bound at version -> out=<hex|NULL>
   GV <sym> <ver> <prefix> <count> <rbytes> <nrbytes> <size>   crypt_gensalt_rn-shaped symbol bound at version -> ret= errno= buf= guard=
   RV <sym> <ver> <phrase> <setting>   crypt_r-shaped symbol bound at version, zeroed object -> ret= errno= out=
   ABI                         -> sizeof/offsets/constants of the header this harness was compiled with
   SYMS                        -> handled by the runner (readelf)                                              */
static void *so_handle;
static void *so_sym (const char *name, const char *ver)
{
  if (!so_handle) so_handle = dlopen (getenv ("XC_SO_PATH"), RTLD_NOW);
  if (!so_handle) { fprintf (stderr, "dlopen: %s\n", dlerror ()); _exit (98); }
  return ver && *ver && strcmp (ver, "-") ? dlvsym (so_handle, name, ver) : dlsym (so_handle, name);
}

static void bits_from (char out[64], const unsigned char b[8], unsigned noise)
{
  uint64_t s = noise * 0x9e3779b97f4a7c15ULL + 1;
  for (int i = 0; i < 8; i++) for (int j = 0; j < 8; j++)
    {
      unsigned bit = (b[i] >> (7 - j)) & 1;
      unsigned hi = 0;
      if (noise) { s ^= s << 13; s ^= s >> 7; s ^= s << 17; hi = (unsigned)(s & 0xfe); }
      out[i * 8 + j] = (char)(bit | hi);
    }
}
static int bits_to (unsigned char b[8], const char in[64])
{
  int ok = 1; memset (b, 0, 8);
  for (int i = 0; i < 64; i++) { if ((unsigned char)in[i] > 1) ok = 0; b[i / 8] |= (unsigned char)((in[i] & 1) << (7 - i % 8)); }
  return ok;
}

/* a trailing "T" token on SK / EN runs the library call on a freshly created thread (joined before the op returns): the static key
   of setkey/encrypt is process-wide, a history may set it on one thread and use it on another (seeded/C17c) */
struct so_tcall { void (*sk)(const char *); void (*en)(char *, int); char *bits; int edflag; };
static void *so_tcall_run (void *a)
{ struct so_tcall *c = a; if (c->sk) c->sk (c->bits); else c->en (c->bits, c->edflag); return NULL; }
static void so_on_thread (struct so_tcall *c)
{ pthread_t th; pthread_create (&th, NULL, so_tcall_run, c); pthread_join (th, NULL); }

static int op_so_dispatch (int n, char **tok)
{
  typedef void (*setkey_f)(const char *); typedef void (*setkey_r_f)(const char *, struct crypt_data *);
  typedef void (*encrypt_f)(char *, int); typedef void (*encrypt_r_f)(char *, int, struct crypt_data *);
  int isn; size_t l;
  if (!strcmp (tok[0], "SK") && n >= 2)
    {
      unsigned char *k = unhex (tok[1], &l, &isn); char bits[64]; bits_from (bits, k, n > 2 ? (unsigned)atoi (tok[2]) : 0);
      if (n > 3 && !strcmp (tok[3], "T")) { struct so_tcall c = { (setkey_f) so_sym ("setkey", "GLIBC_2.2.5"), NULL, bits, 0 }; so_on_thread (&c); }
      else ((setkey_f) so_sym ("setkey", "GLIBC_2.2.5")) (bits);
      free (k); printf ("ok\n"); return 1;
    }
  if (!strcmp (tok[0], "SKR") && n >= 3)
    {
      int id = atoi (tok[1]) % NOBJ; unsigned char *k = unhex (tok[2], &l, &isn); char bits[64]; bits_from (bits, k, n > 3 ? (unsigned)atoi (tok[3]) : 0);
      if (!objs[id].d) { char *t[] = { "O", tok[1], "z", "0" }; obj_quiet = 1; op_obj (4, t); obj_quiet = 0; }
      ((setkey_r_f) so_sym ("setkey_r", "GLIBC_2.2.5")) (bits, objs[id].d); free (k); printf ("ok\n"); return 1;
    }
  if (!strcmp (tok[0], "EN") && n >= 4)
    {
      unsigned char *b = unhex (tok[1], &l, &isn), out[8]; char bits[64]; bits_from (bits, b, (unsigned)atoi (tok[3]));
      if (n > 4 && !strcmp (tok[4], "T")) { struct so_tcall c = { NULL, (encrypt_f) so_sym ("encrypt", "GLIBC_2.2.5"), bits, atoi (tok[2]) }; so_on_thread (&c); }
      else ((encrypt_f) so_sym ("encrypt", "GLIBC_2.2.5")) (bits, atoi (tok[2]));
      int ok = bits_to (out, bits); printf ("d="); puthex (out, 8); printf (" bits01=%d\n", ok); free (b); return 1;
    }
  if (!strcmp (tok[0], "ENR") && n >= 5)
    {
      int id = atoi (tok[1]) % NOBJ; unsigned char *b = unhex (tok[2], &l, &isn), out[8]; char bits[64]; bits_from (bits, b, (unsigned)atoi (tok[4]));
      if (!objs[id].d) { char *t[] = { "O", tok[1], "z", "0" }; obj_quiet = 1; op_obj (4, t); obj_quiet = 0; }
      ((encrypt_r_f) so_sym ("encrypt_r", "GLIBC_2.2.5")) (bits, atoi (tok[3]), objs[id].d);
      int ok = bits_to (out, bits); printf ("d="); puthex (out, 8); printf (" bits01=%d\n", ok); free (b); return 1;
    }
  if (!strcmp (tok[0], "CV") && n >= 5)
    {
      typedef char *(*crypt_f)(const char *, const char *);
      size_t pl, sl; unsigned char *p = unhex (tok[3], &pl, &isn), *s = unhex (tok[4], &sl, &isn);
      crypt_f f = (crypt_f) so_sym (tok[1], tok[2]);
      if (!f) { printf ("out=NOSYM\n"); free (p); free (s); return 1; }
      char *r = f ((char *)p, (char *)s);
      printf ("out="); if (!r) printf ("NULL"); else puthex ((unsigned char *)r, strlen (r)); printf ("\n");
      free (p); free (s); return 1;
    }
  if (!strcmp (tok[0], "GV") && n >= 8)
    { /* GV <sym> <ver> <prefix> <count> <rbytes> <nrbytes> <size>: a crypt_gensalt_rn-shaped symbol bound at a version, the way an old binary calls it */
      typedef char *(*gs_f)(const char *, unsigned long, const char *, int, char *, int);
      size_t pl, rl; int pn, rn; unsigned char *pf = unhex (tok[3], &pl, &pn), *rb = unhex (tok[5], &rl, &rn);
      gs_f f = (gs_f) so_sym (tok[1], tok[2]);
      int size = atoi (tok[7]); char *buf = malloc ((size > 0 ? size : 1) + 16); memset (buf, 0x5a, (size > 0 ? size : 1) + 16);
      if (!f) { printf ("ret=NOSYM\n"); free (pf); free (rb); free (buf); return 1; }
      errno = 0; char *r = f (pn ? NULL : (char *)pf, strtoul (tok[4], 0, 10), rn ? NULL : (char *)rb, atoi (tok[6]), buf, size); int e = errno;
      printf ("ret=%s errno=%s buf=", !r ? "NULL" : r == buf ? "out" : "other", r ? "0" : errname (e));
      size_t bl = strnlen (buf, size > 0 ? (size_t)size : 0); if (size > 0 && bl == (size_t)size) printf ("unterminated"); else puthex ((unsigned char *)buf, bl);
      printf (" guard=%s\n", (unsigned char)buf[size > 0 ? size : 1] == 0x5a ? "ok" : "hit");
      free (pf); free (rb); free (buf); return 1;
    }
  if (!strcmp (tok[0], "RV") && n >= 5)
    { /* RV <sym> <ver> <phrase> <setting>: a crypt_r-shaped symbol bound at a version, on a zeroed object */
      typedef char *(*cr_f)(const char *, const char *, struct crypt_data *);
      size_t pl, sl; unsigned char *p = unhex (tok[3], &pl, &isn), *st = unhex (tok[4], &sl, &isn);
      cr_f f = (cr_f) so_sym (tok[1], tok[2]);
      if (!f) { printf ("ret=NOSYM\n"); free (p); free (st); return 1; }
      struct crypt_data *d = calloc (1, sizeof *d);
      errno = 0; char *r = f ((char *)p, (char *)st, d); int e = errno;
      printf ("ret=%s errno=%s out=", !r ? "NULL" : r == d->output ? "out" : "other", r ? "0" : errname (e)); puthex ((unsigned char *)d->output, strnlen (d->output, sizeof d->output)); printf ("\n");
      free (d); free (p); free (st); return 1;
    }
  if (!strcmp (tok[0], "ABI"))
    {
      printf ("sizeof=%zu output=%zu setting=%zu input=%zu reserved=%zu initialized=%zu internal=%zu OUT=%d PASS=%d GENSALT=%d OK=%d INVALID=%d LEGACY=%d\n",
              sizeof (struct crypt_data), offsetof (struct crypt_data, output), offsetof (struct crypt_data, setting), offsetof (struct crypt_data, input),
              offsetof (struct crypt_data, reserved), offsetof (struct crypt_data, initialized), offsetof (struct crypt_data, internal),
              CRYPT_OUTPUT_SIZE, CRYPT_MAX_PASSPHRASE_SIZE, CRYPT_GENSALT_OUTPUT_SIZE, CRYPT_SALT_OK, CRYPT_SALT_INVALID, CRYPT_SALT_METHOD_LEGACY);
      return 1;
    }
  return 0;
}

#!/bin/bash
# confirm_seed.sh <worktree> <id>: confirm a seeded change myself:
#   with the change: library builds, the repository's test suite passes, the demo fails;
#   without it: the demo passes.  Writes <worktree>/mutation/confirm.json
set -u
wt=$1; id=$2; m=$wt/mutation
cd $wt || exit 2
git diff -- lib > $m/current.diff
if ! diff -q <(grep '^[+-][^+-]' $m/current.diff) <(grep '^[+-][^+-]' $m/patch.diff) >/dev/null; then echo "$id: worktree diff differs from patch.diff"; fi
extra="${DEMO_FLAGS:-}"; [ "$id" = C09 ] && extra="-O0 -pthread"
# DEMO_LINK: a (default, static libcrypt.a) | so (link the shared library, rpath) | dl (dlopen: only -ldl)
case "${DEMO_LINK:-a}" in
  a) lib="$wt/.libs/libcrypt.a" ;;
  so) lib="-L$wt/.libs -lcrypt -Wl,-rpath,$wt/.libs" ;;
  dl) lib="-ldl" ;;
esac
make -j4 >/dev/null 2>&1; b=$?
make -j4 check > $m/check.log 2>&1
pass=$(grep -m1 '^# PASS:' $m/check.log | awk '{print $3}'); fail=$(grep -m1 '^# FAIL:' $m/check.log | awk '{print $3}'); err=$(grep -m1 '^# ERROR:' $m/check.log | awk '{print $3}')
# DEMO_SH=1: the demonstration is mutation/demo.sh (it builds what it needs itself, e.g. another configuration)
if [ "${DEMO_SH:-0}" = 1 ]; then sh $m/demo.sh > $m/demo_with.out 2>&1; dw=$?
else gcc $extra -I $wt $m/demo.c $lib -o $m/demo_with 2>$m/demo_build.log; $m/demo_with > $m/demo_with.out 2>&1; dw=$?; fi
git apply -R $m/patch.diff || { echo "$id: cannot reverse"; exit 2; }
make -j4 >/dev/null 2>&1
if [ "${DEMO_SH:-0}" = 1 ]; then sh $m/demo.sh > $m/demo_without.out 2>&1; dwo=$?
else gcc $extra -I $wt $m/demo.c $lib -o $m/demo_without 2>>$m/demo_build.log; $m/demo_without > $m/demo_without.out 2>&1; dwo=$?; fi
git apply $m/patch.diff
rm -f $m/demo_with $m/demo_without
echo "{\"id\":\"$id\",\"build\":$b,\"suite_pass\":${pass:-0},\"suite_fail\":${fail:-0},\"suite_error\":${err:-0},\"demo_exit_with_change\":$dw,\"demo_exit_without_change\":$dwo}" | tee $m/confirm.json

"""Build the C side from /repo's *current working tree* into a scratch directory.

Nothing is written into /repo.  The generated headers (crypt-hashes.h, crypt.h,
crypt-symbol-vers.h, libcrypt.map) are regenerated with the tree's own perl
generators using the parameters recorded by configure in /repo/Makefile, so an
edit to hashes.conf / crypt.h.in / libcrypt.map.in is seen by every check.
"""
import os, re, subprocess, shutil, glob, concurrent.futures, tempfile, hashlib

REPO = os.environ.get("XCV_REPO", "/repo")
SCRATCH_ROOT = "/var/tmp"

def mk_scratch(tag="xcv"):
    os.makedirs(SCRATCH_ROOT, exist_ok=True)
    return tempfile.mkdtemp(prefix=f"xcverif.{tag}.", dir=SCRATCH_ROOT)

def make_vars(repo=REPO):
    txt = open(os.path.join(repo, "Makefile"), errors="replace").read()
    out = {}
    for k in ["hashes_enabled", "SYMVER_MIN", "SYMVER_FLOOR", "COMPAT_ABI", "APPLY_SYMVERS"]:
        m = re.search(r"^%s\s*=\s*(.*)$" % k, txt, re.M)
        out[k] = m.group(1).strip() if m else ""
    return out

def run(cmd, **kw):
    return subprocess.run(cmd, check=True, text=True, capture_output=True, **kw)

def gen_headers(dst, repo=REPO, hashes_enabled=None, compat_abi=None):
    """Regenerate the build-time generated headers into dst."""
    mv = make_vars(repo)
    he = hashes_enabled if hashes_enabled is not None else mv["hashes_enabled"]
    ca = compat_abi if compat_abi is not None else mv["COMPAT_ABI"]
    S = os.path.join(repo, "build-aux/scripts")
    env = dict(os.environ, LC_ALL="C")
    cfg = open(os.path.join(repo, "config.h")).read()
    if ca == "no" and mv["COMPAT_ABI"] != "no":
        # configure.ac: without descrypt the obsolete APIs (and the SUSE compat symbols) are switched off
        cfg = re.sub(r"#define ENABLE_OBSOLETE_API 1", "#define ENABLE_OBSOLETE_API 0", cfg)
        cfg = re.sub(r"#define ENABLE_COMPAT_SUSE 1", "#define ENABLE_COMPAT_SUSE 0", cfg)
    open(os.path.join(dst, "config.h"), "w").write(cfg)
    def perl(script, args, out):
        r = subprocess.run(["perl", os.path.join(S, script)] + args, text=True,
                           capture_output=True, env=env, cwd=dst)
        if r.returncode != 0:
            raise RuntimeError(f"{script} failed: {r.stderr}")
        open(os.path.join(dst, out), "w").write(r.stdout)
    perl("gen-crypt-hashes-h", [os.path.join(repo, "lib/hashes.conf"), he], "crypt-hashes.h")
    perl("gen-crypt-symbol-vers-h", [mv["APPLY_SYMVERS"], "SYMVER_MIN=" + mv["SYMVER_MIN"],
         "SYMVER_FLOOR=" + mv["SYMVER_FLOOR"], "COMPAT_ABI=" + ca,
         os.path.join(repo, "lib/libcrypt.map.in")], "crypt-symbol-vers.h")
    perl("gen-crypt-h", [os.path.join(repo, "lib/crypt.h.in"), "config.h",
         os.path.join(repo, "lib/hashes.conf"), he], "crypt.h")
    perl("gen-crypt-h", [os.path.join(repo, "lib/xcrypt.h.in"), "config.h"], "xcrypt.h")
    perl("gen-libcrypt-map", ["SYMVER_MIN=" + mv["SYMVER_MIN"], "SYMVER_FLOOR=" + mv["SYMVER_FLOOR"],
         "COMPAT_ABI=" + ca, os.path.join(repo, "lib/libcrypt.map.in")], "libcrypt.map")
    return mv

LIB_EXCLUDE = {"gen-des-tables.c", "alg-yescrypt-platform.c"}

def lib_sources(repo=REPO):
    return sorted(p for p in glob.glob(os.path.join(repo, "lib/*.c"))
                  if os.path.basename(p) not in LIB_EXCLUDE)

def cflags(dst, repo=REPO, extra=()):
    return ["-DHAVE_CONFIG_H", "-DIN_LIBCRYPT", "-I" + dst, "-I" + os.path.join(repo, "lib"),
            "-Wno-error", "-w"] + list(extra)

def compile_lib(dst, repo=REPO, cc="gcc", opt=("-O1", "-g"), extra=(), pic=False, jobs=16):
    """Compile every lib/*.c into dst/obj/*.o; returns list of objects."""
    od = os.path.join(dst, "obj" + ("-pic" if pic else ""))
    os.makedirs(od, exist_ok=True)
    fl = cflags(dst, repo, extra) + list(opt) + (["-fPIC", "-DPIC"] if pic else [])
    srcs = lib_sources(repo)
    def one(src):
        o = os.path.join(od, os.path.basename(src)[:-2] + ".o")
        r = subprocess.run([cc] + fl + ["-c", src, "-o", o], text=True, capture_output=True)
        if r.returncode != 0:
            raise RuntimeError(f"compile failed: {src}\n{r.stderr[-3000:]}")
        return o
    with concurrent.futures.ThreadPoolExecutor(jobs) as ex:
        objs = list(ex.map(one, srcs))
    return objs

def link_so(dst, objs, name="libcrypt.so.1"):
    so = os.path.join(dst, name)
    r = subprocess.run(["gcc", "-shared", "-o", so, "-Wl,--version-script=" + os.path.join(dst, "libcrypt.map"),
                        "-Wl,-soname,libcrypt.so.1", "-Wl,--no-undefined"] + objs, text=True, capture_output=True)
    if r.returncode != 0:
        raise RuntimeError("link failed: " + r.stderr[-3000:])
    return so

def build_harness(dst, src, objs, out, repo=REPO, cc="gcc", opt=("-O1", "-g"), extra=(), ldextra=()):
    r = subprocess.run([cc] + cflags(dst, repo, extra) + list(opt) + ["-I/verif/harness", src] + objs +
                       # -z now: no lazy-binding trampolines (they spill every vector register, i.e. whatever libc's string
                       # functions last loaded, onto the stack in the middle of a call: false alarms for the C09 stack scan)
                       ["-o", out, "-lpthread", "-Wl,-z,now"] + list(ldextra), text=True, capture_output=True)
    if r.returncode != 0:
        raise RuntimeError("harness build failed: " + r.stderr[-4000:])
    return out

def tree_fingerprint(repo=REPO):
    h = hashlib.sha256()
    for p in sorted(glob.glob(os.path.join(repo, "lib/*")) + glob.glob(os.path.join(repo, "build-aux/scripts/*"))
                    + [os.path.join(repo, "config.h"), os.path.join(repo, "Makefile")]):
        if os.path.isfile(p):
            h.update(p.encode()); h.update(open(p, "rb").read())
    return h.hexdigest()[:16]

if __name__ == "__main__":
    import sys, time
    t = time.time()
    d = mk_scratch("selftest")
    try:
        gen_headers(d)
        objs = compile_lib(d)
        print(len(objs), "objects", time.time() - t)
        pobjs = compile_lib(d, pic=True)
        so = link_so(d, pobjs)
        print(so, os.path.getsize(so), time.time() - t)
        for f in ["crypt-hashes.h", "crypt.h", "crypt-symbol-vers.h", "libcrypt.map"]:
            a = open(os.path.join(d, f)).read(); b = open(os.path.join(REPO, f)).read()
            print(f, "same" if a == b else "DIFFERS")
    finally:
        shutil.rmtree(d)

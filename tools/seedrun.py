#!/usr/bin/env python3
"""seedrun.py <seed-id> [--tier quick|thorough] [--checks C01,C05,...] [--seeds 1,2]
Apply /verif/seeded/<seed-id>/patch.diff to /repo, run the named checks (default: the property the change breaks),
undo the change (always), and record what each check said in seeded/<seed-id>/detect.json.
Evidence of these runs goes to out/seed_evidence, never to evidence/."""
import os, sys, json, subprocess, argparse, time
ROOT = os.path.dirname(os.path.dirname(os.path.abspath(__file__)))
ap = argparse.ArgumentParser(); ap.add_argument("sid"); ap.add_argument("--tier", default="quick")
ap.add_argument("--checks", default=None); ap.add_argument("--seeds", default="1")
ap.add_argument("--copy", action="store_true", help="apply the patch to a scratch copy of /repo (XCV_REPO) instead of /repo itself")
a = ap.parse_args()
sd = os.path.join(ROOT, "seeded", a.sid); meta = json.load(open(os.path.join(sd, "meta.json")))
checks = a.checks.split(",") if a.checks else [meta["breaks_property"]]
REPO = "/repo"
if a.copy:
    import shutil
    REPO = "/var/tmp/seedrepo.%s.%d" % (a.sid, os.getpid())
    subprocess.run(["rsync", "-a", "--exclude", ".git", "--exclude", "*.o", "--exclude", "*.lo", "--exclude", ".libs", "/repo/", REPO + "/"], check=True)
    # /repo's working tree may hold another seeded patch at this moment (seedall running): every tracked file comes from HEAD, only the
    # build products (config.h, generated headers) are taken from the working tree
    ar = subprocess.run(["git", "-C", "/repo", "archive", "HEAD"], capture_output=True, check=True)
    subprocess.run(["tar", "-x", "-C", REPO], input=ar.stdout, check=True)
    os.environ["XCV_REPO"] = REPO
def git(*x): return subprocess.run(["git", "-C", REPO] + list(x), capture_output=True, text=True)
if not a.copy:
    st = git("status", "--porcelain", "--untracked-files=no").stdout.strip()
    if st: sys.exit("refusing: /repo working tree is not clean:\n" + st)
r = git("apply", os.path.join(sd, "patch.diff"))
if r.returncode: sys.exit("patch does not apply: " + r.stderr)
res = []
try:
    for c in checks:
        for seed in a.seeds.split(","):
            env = dict(os.environ, VERIF_SEED=seed, VERIF_TIER=a.tier, VERIF_EVIDENCE_DIR=os.path.join(ROOT, "out", "seed_evidence", a.sid))
            t = time.time()
            p = subprocess.run([os.path.join(ROOT, "verif.py"), "check", c, "--tier", a.tier], capture_output=True, text=True, env=env)
            vio = [l for l in p.stdout.splitlines() if l.startswith("VIOLATION")]
            replay = None
            if vio:
                try:
                    rp = vio[0].split("replay=")[1].split()[0]; replay = json.load(open(rp))
                    replay = {k: replay[k] for k in ("kind", "what", "failing_input", "unproved") if k in replay}
                except Exception as e: replay = {"error": str(e)}
            res.append({"check": c, "tier": a.tier, "seed": int(seed), "exit": p.returncode, "wall_s": round(time.time() - t, 1),
                        "violation_lines": [v[:400] for v in vio], "first_replay": replay})
            print("%s on seeded %s (seed %s): exit %d %s" % (c, a.sid, seed, p.returncode, (vio[0][:300] if vio else "no violation")), flush=True)
finally:
    if a.copy:
        shutil.rmtree(REPO, ignore_errors=True)
    else:
        git("checkout", "--", ".")
        assert not git("status", "--porcelain", "--untracked-files=no").stdout.strip()
dp = os.path.join(sd, "detect.json")
old = json.load(open(dp)) if os.path.exists(dp) else []
old = [o for o in old if not any(o["check"] == n["check"] and o["tier"] == n["tier"] and o["seed"] == n["seed"] for n in res)]
json.dump(old + res, open(dp, "w"), indent=1)

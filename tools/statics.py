#!/usr/bin/env python3
"""Static-storage footprint of lib/*.c from the clang AST (C08).

For every translation unit: objects with static storage duration, and for every function the static objects it
may WRITE (assignment / compound assignment / ++ / -- on an lvalue rooted in the object, address taken, or the
object (array/struct) handed to a call through a pointer-to-non-const parameter position) and the functions it
calls.  Indirect calls through the hash_algorithms table are resolved to every crypt_*_rn / gensalt_*_rn.
The analysis is syntactic and over-approximates writes; reads are ignored.
"""
import os, sys, json, subprocess, concurrent.futures, re
sys.path.insert(0, os.path.dirname(os.path.abspath(__file__)))
import cbuild

def ast_of(src, incdir, repo):
    r = subprocess.run(["clang-14", "-fsyntax-only", "-Xclang", "-ast-dump=json", "-DHAVE_CONFIG_H", "-DIN_LIBCRYPT", "-DPIC", "-I" + incdir,
                        "-I" + os.path.join(repo, "lib"), "-w", src], text=True, capture_output=True)
    if r.returncode != 0 and not r.stdout: raise RuntimeError("clang failed on %s: %s" % (src, r.stderr[-500:]))
    return json.loads(r.stdout)

def is_const_obj(qt):
    # the OBJECT is const if the outermost type is const-qualified (for arrays: element type)
    t = qt.strip()
    if t.endswith("]"): t = t[:t.index("[")].strip()
    if t.endswith("*") or t.endswith("*const") or t.endswith("* const"):
        return t.endswith("const")
    return t.startswith("const ") or " const" in t.split("*")[-1]

def analyse(tu, fname):
    statics = {}     # id -> (name, const?)
    funcs = {}       # name -> {"writes": set, "calls": set, "indirect": bool}
    def walk_decls(node, cur_fn):
        k = node.get("kind")
        if k == "VarDecl":
            sc = node.get("storageClass")
            file_scope = cur_fn is None
            if (file_scope and sc != "extern") or sc == "static":
                if "loc" in node and (node.get("isImplicit") is not True):
                    qt = node.get("type", {}).get("qualType", "")
                    statics[node["id"]] = (("%s:%s" % (cur_fn, node.get("name"))) if cur_fn else node.get("name"), is_const_obj(qt), qt)
        if k == "FunctionDecl" and any(c.get("kind") == "CompoundStmt" for c in node.get("inner", [])):
            name = node.get("name")
            funcs.setdefault(name, {"writes": set(), "calls": set(), "indirect": False})
            for c in node.get("inner", []): walk_decls(c, name)
            return
        for c in node.get("inner", []): walk_decls(c, cur_fn)
    walk_decls(tu, None)
    def root_refs(node):
        """DeclRefExpr ids in the lvalue spine of an expression"""
        out = []
        k = node.get("kind")
        if k == "DeclRefExpr":
            rd = node.get("referencedDecl", {})
            out.append(rd.get("id"))
        for c in node.get("inner", []): out += root_refs(c)
        return out
    def walk(node, fn):
        k = node.get("kind")
        if k == "FunctionDecl":
            if any(c.get("kind") == "CompoundStmt" for c in node.get("inner", [])):
                for c in node.get("inner", []): walk(c, node.get("name"))
            return
        if fn is not None:
            if k in ("BinaryOperator", "CompoundAssignOperator") and (node.get("opcode", "").endswith("=") and node.get("opcode") not in ("==", "!=", "<=", ">=")):
                lhs = node.get("inner", [None])[0]
                if lhs:
                    for rid in root_refs(lhs):
                        if rid in statics: funcs[fn]["writes"].add(rid)
            if k == "UnaryOperator" and node.get("opcode") in ("++", "--", "&"):
                for rid in root_refs(node):
                    if rid in statics: funcs[fn]["writes"].add(rid)
            if k == "CallExpr":
                inner = node.get("inner", [])
                callee = inner[0] if inner else {}
                names = [n for n in callee_names(callee)]
                if names: funcs[fn]["calls"].update(names)
                else: funcs[fn]["indirect"] = True
                # arguments: a non-const static array/struct decaying to a pointer may be written by the callee
                for a in inner[1:]:
                    for rid in root_refs(a):
                        if rid in statics and not statics[rid][1]:
                            qt = statics[rid][2]
                            if "[" in qt or "struct" in qt or "union" in qt: funcs[fn]["writes"].add(rid)
        for c in node.get("inner", []): walk(c, fn)
    def callee_names(node):
        if node.get("kind") == "DeclRefExpr" and node.get("referencedDecl", {}).get("kind") == "FunctionDecl":
            return [node["referencedDecl"]["name"]]
        out = []
        for c in node.get("inner", []): out += callee_names(c)
        return out
    walk(tu, None)
    return statics, funcs

def collect(incdir, repo=cbuild.REPO):
    srcs = cbuild.lib_sources(repo)
    with concurrent.futures.ThreadPoolExecutor(16) as ex:
        res = list(ex.map(lambda s: (s, analyse(ast_of(s, incdir, repo), s)), srcs))
    allfuncs, allstat = {}, {}
    for src, (st, fn) in res:
        base = os.path.basename(src)
        for sid, (name, const, qt) in st.items(): allstat[(base, sid)] = (base + ":" + str(name), const, qt)
        for name, d in fn.items():
            e = allfuncs.setdefault(name, {"writes": set(), "calls": set(), "indirect": False, "file": base})
            e["writes"] |= {allstat[(base, w)][0] for w in d["writes"] if not allstat[(base, w)][1]}
            e["calls"] |= d["calls"]; e["indirect"] |= d["indirect"]
    return allfuncs, allstat

REENTRANT = ["crypt_r", "crypt_rn", "crypt_ra", "crypt_gensalt_rn", "crypt_gensalt_ra", "crypt_checksalt", "crypt_preferred_method"]
NONREENTRANT = ["crypt", "crypt_gensalt", "setkey", "encrypt"]

def emit_lean(incdir, repo=cbuild.REPO):
    funcs, stat = collect(incdir, repo)
    names = sorted(funcs)
    idx = {n: i for i, n in enumerate(names)}
    METHODS = ["yescrypt", "gost_yescrypt", "scrypt", "bcrypt", "bcrypt_y", "bcrypt_a", "bcrypt_x", "sha512crypt", "sha256crypt", "sha1crypt", "sunmd5",
               "md5crypt", "nt", "bsdicrypt", "bigcrypt", "descrypt"]
    tablefns = [n for n in names if n in {"_crypt_%s_%s_rn" % (k, m) for k in ("crypt", "gensalt") for m in METHODS}]
    def api(n): return "_crypt_" + n if "_crypt_" + n in idx else n
    o = ["-- GENERATED by tools/statics.py from the clang AST of /repo/lib/*.c.  DO NOT EDIT.\n", "namespace Xc.Gen\n"]
    o.append("/-- (callees, number of writable static objects the function may write); index = position -/")
    rows = []
    for n in names:
        e = funcs[n]
        callees = {idx[c] for c in e["calls"] if c in idx}
        if e["indirect"]: callees |= {idx[t] for t in tablefns}
        rows.append("  (%s, %d) /- %d %s%s -/" % ("[" + ", ".join(map(str, sorted(callees))) + "]", len(e["writes"]), idx[n], n,
                                             (" writes " + ",".join(sorted(e["writes"]))) if e["writes"] else ""))
    o.append("def st_funcs : List (List Nat × Nat) := [\n" + ",\n".join(rows) + "]\n")
    # functions called but not defined in lib/*.c (libc, compiler run-time); compiler builtins (`__builtin_*`) are code, not calls
    o.append("/-- external functions each function calls (index = position in st_funcs) -/")
    ext_rows = []
    for n in names:
        ext = sorted(c for c in funcs[n]["calls"] if c not in idx and not c.startswith("__builtin_"))
        ext_rows.append("  [" + ", ".join('"%s"' % c for c in ext) + "]" + (" /- %s -/" % n if ext else ""))
    o.append("def st_ext : List (List String) := [\n" + ",\n".join(ext_rows) + "]\n")
    missing = [r for r in REENTRANT if api(r) not in idx]
    if missing: raise RuntimeError("re-entrant API functions not found in the AST: %r" % missing)
    o.append("def st_reentrant : List Nat := [" + ", ".join(str(idx[api(r)]) for r in REENTRANT) + "]  -- " + ", ".join(REENTRANT) + "\n")
    o.append("def st_nonreentrant : List Nat := [" + ", ".join(str(idx[api(r)]) for r in NONREENTRANT if api(r) in idx) + "]  -- " + ", ".join(r for r in NONREENTRANT if api(r) in idx) + "\n")
    wst = sorted(v[0] for v in stat.values() if not v[1])
    o.append("/-- number of static objects that are not const-qualified: " + "; ".join(wst) + " -/")
    o.append("def st_writable_statics : Nat := %d\n" % len(wst))
    o.append("end Xc.Gen\n")
    return "\n".join(o), funcs, stat

if __name__ == "__main__":
    d = cbuild.mk_scratch("statics")
    try:
        cbuild.gen_headers(d)
        f, s = collect(d)
        print(len(f), "functions;", sum(1 for v in s.values() if not v[1]), "non-const statics of", len(s))
        for k, v in sorted(s.items()):
            if not v[1]: print("  writable static:", v[0], "::", v[2])
        for name, e in sorted(f.items()):
            if e["writes"]: print("  ", name, "writes", sorted(e["writes"]))
    finally:
        import shutil; shutil.rmtree(d)

#!/usr/bin/env python3
"""Translators: regenerate lean/Xc/Gen/*.lean from /repo's current working tree.

Everything that is *data* in the C source (constants, limits, tables, the
dispatch table, struct layout, hashes.conf) is extracted here on every run and
written as Lean source; nothing in Xc/Gen is ever written by hand.

Extraction is by *execution of the tree's own source*: for every lib file that
defines file-local macros or static tables a probe translation unit
`#include`s that .c file and prints the values.  This makes the extraction
robust against reformatting and sensitive to any change of value.
"""
import os, sys, re, subprocess, json, shutil, concurrent.futures
sys.path.insert(0, os.path.dirname(os.path.abspath(__file__)))
import cbuild

METHODS = ["yescrypt", "gost_yescrypt", "scrypt", "bcrypt", "bcrypt_y", "bcrypt_a", "bcrypt_x",
           "sha512crypt", "sha256crypt", "sha1crypt", "sunmd5", "md5crypt", "nt", "bsdicrypt",
           "bigcrypt", "descrypt"]

PRELUDE = r'''
#include <stdio.h>
#include <stddef.h>
#include <stdalign.h>
#define PN(name) printf("N %s %llu\n", #name, (unsigned long long)(name))
#define PNX(label, v) printf("N %s %llu\n", label, (unsigned long long)(v))
static void PB(const char *name, const void *p, size_t n)
{ const unsigned char *b = p; printf("B %s", name); for (size_t i = 0; i < n; i++) printf(" %u", b[i]); printf("\n"); }
static void PW32(const char *name, const uint32_t *p, size_t n)
{ printf("W %s", name); for (size_t i = 0; i < n; i++) printf(" %u", p[i]); printf("\n"); }
static void PW64(const char *name, const uint64_t *p, size_t n)
{ printf("W %s", name); for (size_t i = 0; i < n; i++) printf(" %llu", (unsigned long long)p[i]); printf("\n"); }
'''

# file -> body of main()
PROBES = {
 "crypt.c": r'''
  PN(ALG_SPECIFIC_SIZE); PNX("sizeof_crypt_internal", sizeof(struct crypt_internal));
  PNX("alignof_crypt_internal", alignof(struct crypt_internal));
  PN(CRYPT_OUTPUT_SIZE); PN(CRYPT_MAX_PASSPHRASE_SIZE); PN(CRYPT_GENSALT_OUTPUT_SIZE);
  PN(CRYPT_DATA_RESERVED_SIZE); PN(CRYPT_DATA_INTERNAL_SIZE);
  PN(CRYPT_SALT_OK); PN(CRYPT_SALT_INVALID); PN(CRYPT_SALT_METHOD_DISABLED);
  PN(CRYPT_SALT_METHOD_LEGACY); PN(CRYPT_SALT_TOO_CHEAP);
  PNX("sizeof_crypt_data", sizeof(struct crypt_data));
  PNX("off_output", offsetof(struct crypt_data, output));
  PNX("off_setting", offsetof(struct crypt_data, setting));
  PNX("off_input", offsetof(struct crypt_data, input));
  PNX("off_reserved", offsetof(struct crypt_data, reserved));
  PNX("off_initialized", offsetof(struct crypt_data, initialized));
  PNX("off_internal", offsetof(struct crypt_data, internal));
  PNX("size_output", sizeof(((struct crypt_data*)0)->output));
  PNX("size_setting", sizeof(((struct crypt_data*)0)->setting));
  PNX("size_input", sizeof(((struct crypt_data*)0)->input));
  PNX("size_reserved", sizeof(((struct crypt_data*)0)->reserved));
  PNX("size_initialized", sizeof(((struct crypt_data*)0)->initialized));
  PNX("size_internal", sizeof(((struct crypt_data*)0)->internal));
  PNX("UCHAR_MAX_", UCHAR_MAX);
#ifdef ENABLE_FAILURE_TOKENS
  PNX("ENABLE_FAILURE_TOKENS_", ENABLE_FAILURE_TOKENS);
#else
  PNX("ENABLE_FAILURE_TOKENS_", 0);
#endif
#ifdef HASH_ALGORITHM_DEFAULT
  printf("S HASH_ALGORITHM_DEFAULT %s\n", HASH_ALGORITHM_DEFAULT);
#else
  printf("S HASH_ALGORITHM_DEFAULT -\n");
#endif
#ifdef CRYPT_GENSALT_IMPLEMENTS_DEFAULT_PREFIX
  PNX("GENSALT_IMPLEMENTS_DEFAULT_PREFIX", CRYPT_GENSALT_IMPLEMENTS_DEFAULT_PREFIX);
#endif
#ifdef CRYPT_GENSALT_IMPLEMENTS_AUTO_ENTROPY
  PNX("GENSALT_IMPLEMENTS_AUTO_ENTROPY", CRYPT_GENSALT_IMPLEMENTS_AUTO_ENTROPY);
#endif
  for (const struct hashfn *h = hash_algorithms; h->prefix; h++) {
    const char *cn = "?", *gn = "?";
    @@FNMAP@@
    printf("T %s %s %u %u %zu", cn, gn, (unsigned)h->nrbytes, (unsigned)h->is_strong, h->plen);
    for (const char *p = h->prefix; *p; p++) printf(" %u", (unsigned char)*p);
    printf("\n");
  }
''',
 "crypt-md5.c": r'''
#if INCLUDE_md5crypt
  PNX("MD5_SALT_LEN_MAX", SALT_LEN_MAX); PN(MD5_HASH_LENGTH); PNX("sizeof_md5_buffer", sizeof(struct md5_buffer));
  PB("md5_salt_prefix", md5_salt_prefix, sizeof md5_salt_prefix - 1);
#endif
''',
 "crypt-sha256.c": r'''
#if INCLUDE_sha256crypt
  PNX("SHA256_SALT_LEN_MAX", SALT_LEN_MAX); PNX("SHA256_ROUNDS_DEFAULT", ROUNDS_DEFAULT);
  PNX("SHA256_ROUNDS_MIN", ROUNDS_MIN); PNX("SHA256_ROUNDS_MAX", ROUNDS_MAX); PN(SHA256_HASH_LENGTH);
  PNX("sizeof_sha256_buffer", sizeof(struct sha256_buffer));
  PB("sha256_salt_prefix", sha256_salt_prefix, sizeof sha256_salt_prefix - 1);
  PB("sha256_rounds_prefix", sha256_rounds_prefix, sizeof sha256_rounds_prefix - 1);
#endif
''',
 "crypt-sha512.c": r'''
#if INCLUDE_sha512crypt
  PNX("SHA512_SALT_LEN_MAX", SALT_LEN_MAX); PNX("SHA512_ROUNDS_DEFAULT", ROUNDS_DEFAULT);
  PNX("SHA512_ROUNDS_MIN", ROUNDS_MIN); PNX("SHA512_ROUNDS_MAX", ROUNDS_MAX); PN(SHA512_HASH_LENGTH);
  PNX("sizeof_sha512_buffer", sizeof(struct sha512_buffer));
  PB("sha512_salt_prefix", sha512_salt_prefix, sizeof sha512_salt_prefix - 1);
  PB("sha512_rounds_prefix", sha512_rounds_prefix, sizeof sha512_rounds_prefix - 1);
#endif
''',
 "crypt-sunmd5.c": r'''
#if INCLUDE_sunmd5
  PN(SUNMD5_PREFIX_LEN); PN(SUNMD5_SALT_LEN); PN(SUNMD5_MAX_SETTING_LEN); PN(SUNMD5_BARE_OUTPUT_LEN);
  PN(SUNMD5_MAX_ROUNDS);
  PB("SUNMD5_PREFIX", SUNMD5_PREFIX, sizeof SUNMD5_PREFIX - 1);
  PB("hamlet_quotation", hamlet_quotation, sizeof hamlet_quotation);
#endif
''',
 "crypt-pbkdf1-sha1.c": r'''
#if INCLUDE_sha1crypt
  PN(CRYPT_SHA1_ITERATIONS); PN(CRYPT_SHA1_SALT_LENGTH); PN(SHA1_SIZE); PN(SHA1_OUTPUT_SIZE);
#endif
''',
 "crypt-nthash.c": r'''
#if INCLUDE_nt
  PN(MD4_HASHLEN); PNX("sizeof_crypt_nt_internal", sizeof(crypt_nt_internal_t));
#endif
''',
 "crypt-des.c": r'''
#if INCLUDE_descrypt || INCLUDE_bigcrypt || INCLUDE_bsdicrypt
  PN(DES_TRD_OUTPUT_LEN); PN(DES_EXT_OUTPUT_LEN); PN(DES_BIG_OUTPUT_LEN); PN(DES_MAX_OUTPUT_LEN);
  PNX("sizeof_des_buffer", sizeof(struct des_buffer));
  { unsigned char t[256]; for (int c = 0; c < 256; c++) { int v = ascii_to_bin((char)c); t[c] = v < 0 ? 255 : (unsigned char)v; }
    PB("des_ascii_to_bin", t, 256); }
#endif
  PB("ascii64", ascii64, 64);
''',
 "crypt-bcrypt.c": r'''
#if INCLUDE_bcrypt || INCLUDE_bcrypt_a || INCLUDE_bcrypt_x || INCLUDE_bcrypt_y
  PN(BF_N); PN(BF_SETTING_LENGTH); PN(BF_HASH_LENGTH); PNX("sizeof_BF_buffer", sizeof(struct BF_buffer));
  PB("BF_itoa64", BF_itoa64, 64); PB("BF_atoi64", BF_atoi64, 0x60); PB("flags_by_subtype", flags_by_subtype, 26);
  PW32("BF_magic_w", BF_magic_w, 6);
  PW32("BF_init_P", BF_init_state.P, 18);
  PW32("BF_init_S0", BF_init_state.S[0], 256); PW32("BF_init_S1", BF_init_state.S[1], 256);
  PW32("BF_init_S2", BF_init_state.S[2], 256); PW32("BF_init_S3", BF_init_state.S[3], 256);
#endif
''',
 "alg-sha256.c": r'''
#if INCLUDE_sha256crypt || INCLUDE_scrypt || INCLUDE_yescrypt || INCLUDE_gost_yescrypt
  PW32("sha256_K", Krnd, 64); PW32("sha256_iv", initial_state, 8);
#endif
''',
 "alg-sha512.c": r'''
#if INCLUDE_sha512crypt
  PW64("sha512_K", K, 80);
  { SHA512_CTX c; SHA512_Init(&c); PW64("sha512_iv", c.state, 8); }
#endif
''',
 "alg-sha1.c": r'''
#if INCLUDE_sha1crypt
  { struct sha1_ctx c; sha1_init_ctx(&c); PW32("sha1_iv", c.state, 5); }
#endif
''',
 "alg-md5.c": r'''
#if INCLUDE_md5crypt || INCLUDE_sunmd5
  { MD5_CTX c; MD5_Init(&c); uint32_t v[4] = { c.a, c.b, c.c, c.d }; PW32("md5_iv", v, 4); }
#endif
''',
 "alg-md4.c": r'''
#if INCLUDE_nt
  { MD4_CTX c; MD4_Init(&c); uint32_t v[4] = { c.a, c.b, c.c, c.d }; PW32("md4_iv", v, 4); }
#endif
''',
 "alg-des.c": r'''
#if INCLUDE_descrypt || INCLUDE_bigcrypt || INCLUDE_bsdicrypt
  PB("des_key_shifts", key_shifts, 16);
  for (int i = 0; i < 4; i++) for (int j = 0; j < 16; j++) { char nm[32]; sprintf(nm, "des_m_sbox_%d_%d", i, j); PB(nm, &m_sbox[i][j*256], 256); }
  for (int i = 0; i < 8; i++) { char nm[32];
    sprintf(nm, "des_ip_maskl_%d", i); PW32(nm, ip_maskl[i], 256); sprintf(nm, "des_ip_maskr_%d", i); PW32(nm, ip_maskr[i], 256);
    sprintf(nm, "des_fp_maskl_%d", i); PW32(nm, fp_maskl[i], 256); sprintf(nm, "des_fp_maskr_%d", i); PW32(nm, fp_maskr[i], 256);
    sprintf(nm, "des_key_perm_maskl_%d", i); PW32(nm, key_perm_maskl[i], 128); sprintf(nm, "des_key_perm_maskr_%d", i); PW32(nm, key_perm_maskr[i], 128);
    sprintf(nm, "des_comp_maskl_%d", i); PW32(nm, comp_maskl[i], 128); sprintf(nm, "des_comp_maskr_%d", i); PW32(nm, comp_maskr[i], 128); }
  for (int i = 0; i < 4; i++) { char nm[32]; sprintf(nm, "des_psbox_%d", i); PW32(nm, psbox[i], 256); }
#endif
''',
 "alg-gost3411-2012-core.c": r'''
#if INCLUDE_gost_yescrypt
  for (int i = 0; i < 8; i++) { char nm[32]; sprintf(nm, "sha512_gost_Ax_%d", i); PW64(nm, (const uint64_t *)Ax[i], 256); }
  for (int i = 0; i < 12; i++) { char nm[32]; sprintf(nm, "sha512_gost_C_%d", i); PW64(nm, (const uint64_t *)C[i].QWORD, 8); }
#endif
''',
 "crypt-yescrypt.c": r'''
#if INCLUDE_yescrypt || INCLUDE_scrypt
  PNX("sizeof_crypt_yescrypt_internal", sizeof(crypt_yescrypt_internal_t));
#endif
''',
 "crypt-gost-yescrypt.c": r'''
#if INCLUDE_gost_yescrypt
  PNX("sizeof_crypt_gost_yescrypt_internal", sizeof(crypt_gost_yescrypt_internal_t));
#endif
''',
 "alg-yescrypt-common.c": r'''
#if INCLUDE_yescrypt || INCLUDE_scrypt || INCLUDE_gost_yescrypt
  PNX("YESCRYPT_PREFIX_LEN", PREFIX_LEN); PNX("YESCRYPT_HASH_LEN", HASH_LEN); PNX("YESCRYPT_HASH_SIZE", HASH_SIZE);
  PB("atoi64_partial", atoi64_partial, 77);
  PN(YESCRYPT_RW); PN(YESCRYPT_RW_FLAVOR_MASK); PN(YESCRYPT_MODE_MASK); PN(YESCRYPT_DEFAULTS); PN(YESCRYPT_WORM);
  PN(YESCRYPT_ROUNDS_6); PN(YESCRYPT_GATHER_4); PN(YESCRYPT_SIMPLE_2); PN(YESCRYPT_SBOX_12K);
#endif
''',
}

def fnmap():
    s = []
    for m in METHODS:
        s.append("#if INCLUDE_%s\n    if (h->crypt == crypt_%s_rn) cn = \"%s\"; if (h->gensalt == gensalt_%s_rn) gn = \"%s\";\n#endif"
                 % (m, m, m, m, m))
    return "\n".join(s)

def run_probe(d, fname, body, repo, objs=()):
    src = os.path.join(d, "probe_" + fname.replace("-", "_"))
    exe = src[:-2]
    body = body.replace("@@FNMAP@@", fnmap())
    open(src, "w").write('#include "%s/lib/%s"\n%s\nint main(void){\n%s\nreturn 0;}\n' % (repo, fname, PRELUDE, body))
    link = [o for o in objs if os.path.basename(o) != fname[:-2] + ".o"]
    r = subprocess.run(["gcc"] + cbuild.cflags(d, repo) + ["-O0", src, "-o", exe] + link,
                       text=True, capture_output=True)
    if r.returncode != 0:
        raise RuntimeError("probe for %s does not compile:\n%s" % (fname, r.stderr[-2000:]))
    r = subprocess.run([exe], text=True, capture_output=True)
    if r.returncode != 0:
        raise RuntimeError("probe for %s failed to run" % fname)
    return r.stdout

def collect(d, repo=cbuild.REPO, probes=PROBES, objs=()):
    vals = {"N": {}, "B": {}, "W": {}, "S": {}, "T": []}
    with concurrent.futures.ThreadPoolExecutor(16) as ex:
        outs = list(ex.map(lambda kv: run_probe(d, kv[0], kv[1], repo, objs), probes.items()))
    for out in outs:
        for line in out.splitlines():
            f = line.split(" ")
            if f[0] == "N": vals["N"][f[1]] = int(f[2])
            elif f[0] in "BW": vals[f[0]][f[1]] = [int(x) for x in f[2:]]
            elif f[0] == "S": vals["S"][f[1]] = f[2]
            elif f[0] == "T":
                vals["T"].append(dict(crypt=f[1], gensalt=f[2], nrbytes=int(f[3]), strong=int(f[4]),
                                      plen=int(f[5]), prefix=[int(x) for x in f[6:]]))
    return vals

def parse_hashes_conf(repo=cbuild.REPO):
    rows = []
    for line in open(os.path.join(repo, "lib/hashes.conf")):
        line = line.strip()
        if not line or line.startswith("#"): continue
        f = line.split()
        name, pfx, nrb, flags = f[0], f[1], f[2], f[3]
        pfx = "" if pfx == ":" else pfx
        flags = [] if flags == ":" else flags.split(",")
        rows.append(dict(name=name, prefix=[ord(c) for c in pfx], nrbytes=int(nrb), flags=flags))
    return rows

def lst(xs, per=16, ind="  "):
    rows = []
    for i in range(0, len(xs), per):
        rows.append(ind + ", ".join(str(x) for x in xs[i:i + per]))
    return "[\n" + ",\n".join(rows) + "]" if xs else "[]"

HDR = "-- GENERATED by tools/gen.py from the /repo working tree.  DO NOT EDIT.\n"

def emit_consts(v):
    o = [HDR, "namespace Xc.Gen\n"]
    for k in sorted(v["N"]):
        o.append("def %s : Nat := %d" % (k, v["N"][k]))
    o.append("\nend Xc.Gen\n")
    return "\n".join(o)

def emit_alphabets(v):
    o = [HDR, "namespace Xc.Gen\n"]
    for k in sorted(v["B"]):
        if k.startswith("des_"): continue
        o.append("def %s : List UInt8 := %s\n" % (k, lst(v["B"][k], 24)))
    o.append("end Xc.Gen\n")
    return "\n".join(o)

def emit_des(v):
    o = [HDR, "namespace Xc.Gen\n"]
    for k in sorted(v["B"]):
        if k.startswith("des_"): o.append("def %s : List UInt8 := %s\n" % (k, lst(v["B"][k], 32)))
    for k in sorted(v["W"]):
        if k.startswith("des_"): o.append("def %s : List UInt32 := %s\n" % (k, lst(v["W"][k], 8)))
    def group(name, n):
        return "def %s : List (List UInt32) := [" % name + ", ".join("%s_%d" % (name, i) for i in range(n)) + "]\n"
    for t in ["des_ip_maskl", "des_ip_maskr", "des_fp_maskl", "des_fp_maskr", "des_key_perm_maskl", "des_key_perm_maskr", "des_comp_maskl", "des_comp_maskr"]:
        o.append(group(t, 8))
    o.append(group("des_psbox", 4))
    o.append("def des_m_sbox : List (List (List UInt8)) := [" + ", ".join("[" + ", ".join("des_m_sbox_%d_%d" % (i, j) for j in range(16)) + "]" for i in range(4)) + "]\n")
    o.append("end Xc.Gen\n")
    return "\n".join(o)

def parse_md_steps(repo):
    """MD5 / MD4 step schedules from the STEP(...) statement sequences:
    (function, target register, b, c, d registers, message word, additive constant, rotation)."""
    out = {}
    regs = {"a": 0, "b": 1, "c": 2, "d": 3}
    fcodes = {"md5": {"F": 0, "G": 1, "H": 2, "H2": 2, "I": 3}, "md4": {"F": 0, "G": 1, "H": 2}}
    for name, fn in [("md5", "alg-md5.c"), ("md4", "alg-md4.c")]:
        src = open(os.path.join(repo, "lib", fn)).read()
        rows = []
        for m in re.finditer(r"^\s*STEP\((\w+), (\w), (\w), (\w), (\w), (?:SET|GET)\((\d+)\)(?: \+ (0x[0-9a-fA-F]+|\w+))?, (?:(0x[0-9a-fA-F]+), )?(\d+)\)", src, re.M):
            f, a, b, c, d, x, k1, k2, sh = m.groups()
            if k1 and not k1.startswith("0x"):
                mm = re.search(r"\b%s\s*=\s*(0x[0-9a-fA-F]+)" % re.escape(k1), src)
                if not mm: raise RuntimeError("cannot resolve constant %s in %s" % (k1, fn))
                k1 = mm.group(1)
            k = int(k1 or k2 or "0", 16)
            rows.append((fcodes[name][f], regs[a], regs[b], regs[c], regs[d], int(x), k, int(sh)))
        want = 64 if name == "md5" else 48
        if len(rows) != want: raise RuntimeError("%s: expected %d STEP lines, found %d" % (fn, want, len(rows)))
        out[name] = rows
    return out

def emit_words(v, steps):
    o = [HDR, "namespace Xc.Gen\n"]
    for k in sorted(v["W"]):
        ty = "UInt64" if k.startswith("sha512") else "UInt32"
        o.append("def %s : List %s := %s\n" % (k, ty, lst(v["W"][k], 8)))
    for k in sorted(steps):
        o.append("/-- %s step schedule: (f, a, b, c, d, x, t, s) -/" % k)
        o.append("def %s_steps : List (Nat × Nat × Nat × Nat × Nat × Nat × UInt32 × Nat) := [\n" % k +
                 ",\n".join("  (%d, %d, %d, %d, %d, %d, %d, %d)" % r for r in steps[k]) + "]\n")
    if any(k.startswith("sha512_gost_Ax") for k in v["W"]):
        o.append("def gost_Ax : List (List UInt64) := [" + ", ".join("sha512_gost_Ax_%d" % i for i in range(8)) + "]\n")
        o.append("def gost_C : List (List UInt64) := [" + ", ".join("sha512_gost_C_%d" % i for i in range(12)) + "]\n")
    o.append("end Xc.Gen\n")
    return "\n".join(o)

def emit_table(v, conf, enabled):
    o = [HDR, "import Xc.Method\nnamespace Xc.Gen\nopen Xc\n"]
    o.append("/-- The dispatch table `hash_algorithms[]` of lib/crypt.c as compiled from the tree. -/")
    o.append("def table : List HashEntry := [")
    rows = []
    for t in v["T"]:
        if t["crypt"] == "?" or t["gensalt"] == "?":
            raise RuntimeError("dispatch table names a function the translator does not know: %r" % t)
        rows.append("  { pfx := %s, plen := %d, crypt := .%s, gensalt := .%s, nrbytes := %d, strong := %s }"
                    % ("[" + ", ".join(map(str, t["prefix"])) + "]", t["plen"], t["crypt"], t["gensalt"],
                       t["nrbytes"], "true" if t["strong"] else "false"))
    o.append(",\n".join(rows) + "]\n")
    d = v["S"].get("HASH_ALGORITHM_DEFAULT", "-")
    o.append("def defaultPrefix : Option (List UInt8) := %s\n" %
             ("none" if d == "-" else "some [" + ", ".join(str(ord(c)) for c in d) + "]"))
    o.append("/-- lib/hashes.conf, in file order. -/")
    o.append("def hashesConf : List ConfEntry := [")
    rows = []
    for r in conf:
        rows.append("  { name := .%s, pfx := %s, nrbytes := %d, strong := %s, dflt := %s }" %
                    (r["name"], "[" + ", ".join(map(str, r["prefix"])) + "]", r["nrbytes"],
                     "true" if "STRONG" in r["flags"] else "false", "true" if "DEFAULT" in r["flags"] else "false"))
    o.append(",\n".join(rows) + "]\n")
    o.append("/-- The hashes selected by configure (Makefile: hashes_enabled). -/")
    o.append("def enabled : List Method := [" + ", ".join("." + m for m in enabled) + "]\n")
    o.append("end Xc.Gen\n")
    return "\n".join(o)

def parse_perms(repo):
    """Output-encoding schedules of the md5/sha256/sha512/sunmd5 front-ends, read from the
    b64_from_24bit (..) / write_itoa64_N (..) statement sequences.  Entry = (hi, mid, lo, nchars);
    255 stands for the literal 0."""
    out = {}
    def idx(tok):
        tok = tok.strip()
        if tok == "0": return 255
        m = re.fullmatch(r"(?:result|s->dg)\[\s*(\d+)\s*\]", tok)
        if not m: raise RuntimeError("unrecognised encoder operand: %r" % tok)
        return int(m.group(1))
    for name, fn in [("md5crypt", "crypt-md5.c"), ("sha256crypt", "crypt-sha256.c"), ("sha512crypt", "crypt-sha512.c")]:
        src = open(os.path.join(repo, "lib", fn)).read()
        rows = re.findall(r"^\s*b64_from_24bit \(([^,]+),([^,]+),([^,]+),\s*(\d+)\);", src, re.M)
        if not rows: raise RuntimeError("no b64_from_24bit schedule found in " + fn)
        out[name] = [(idx(a), idx(b), idx(c), int(n)) for a, b, c, n in rows]
    src = open(os.path.join(repo, "lib", "crypt-sunmd5.c")).read()
    rows = re.findall(r"^\s*write_itoa64_(\d) \(output \+ saltlen \+\s*(\d+),([^,]+),([^,]+),([^,)]+)\);", src, re.M)
    if not rows: raise RuntimeError("no write_itoa64 schedule found in crypt-sunmd5.c")
    off = 1; sched = []
    for n, o, b0, b1, b2 in rows:
        if int(o) != off: raise RuntimeError("sunmd5 output offsets are not contiguous")
        sched.append((idx(b2), idx(b1), idx(b0), int(n))); off += int(n)
    out["sunmd5"] = sched
    return out

def emit_perms(perms):
    o = [HDR, "namespace Xc.Gen\n"]
    for k in sorted(perms):
        o.append("/-- output schedule of %s: (hi, mid, lo, nchars), 255 = literal 0 -/" % k)
        o.append("def perm_%s : List (Nat × Nat × Nat × Nat) := [" % k + ", ".join("(%d, %d, %d, %d)" % r for r in perms[k]) + "]\n")
    o.append("end Xc.Gen\n")
    return "\n".join(o)

def lstr(x): return "[" + ", ".join(str(ord(c)) for c in x) + "]"

def abi_facts(d, repo):
    """(symbol, version, default?) triples and alias classes of the shared library linked from the tree"""
    sd = os.path.join(d, "abi_so"); os.makedirs(sd, exist_ok=True)
    for f in ["config.h", "crypt-hashes.h", "crypt.h", "crypt-symbol-vers.h", "xcrypt.h", "libcrypt.map"]:
        shutil.copy(os.path.join(d, f), sd)
    so = cbuild.link_so(sd, cbuild.compile_lib(sd, repo, pic=True))
    out = subprocess.run(["readelf", "--dyn-syms", "-W", so], text=True, capture_output=True).stdout
    syms = []
    for l in out.splitlines():
        f = l.split()
        if len(f) >= 8 and f[6] != "UND" and "@" in f[7] and f[3] == "FUNC":
            name, ver = re.split("@@?", f[7]); syms.append((name, ver, "@@" in f[7], f[1]))
    return sorted(syms)

def emit_abi(syms, released):
    o = [HDR, "namespace Xc.Gen\n"]
    o.append("/-- (symbol, version, is the default version) exported by the library linked from the tree; names as ASCII codes -/")
    o.append("def abi_exported : List (List Nat × List Nat × Bool) := [")
    o.append(",\n".join("  (%s, %s, %s) /- %s@%s -/" % (lstr(n), lstr(v), "true" if dflt else "false", n, v) for n, v, dflt, a in syms) + "]\n")
    cls = {}
    for n, v, dflt, a in syms: cls.setdefault(a, []).append(n + "@" + v)
    o.append("/-- classes of exported names bound to the same address (aliases) -/")
    o.append("def abi_alias_classes : List (List (List Nat)) := [")
    o.append(",\n".join("  [" + ", ".join(lstr(x) for x in sorted(c)) + "] /- %s -/" % " = ".join(sorted(c)) for c in sorted(cls.values()) if len(c) > 1) + "]\n")
    o.append("/-- the same facts for the released library (committed under /verif/ref) -/")
    o.append("def abi_released : List (List Nat × List Nat × Bool) := [")
    o.append(",\n".join("  (%s, %s, %s) /- %s@%s -/" % (lstr(r["sym"]), lstr(r["ver"]), "true" if r["default"] else "false", r["sym"], r["ver"]) for r in released["symbols"]) + "]\n")
    o.append("def abi_released_alias_classes : List (List (List Nat)) := [")
    o.append(",\n".join("  [" + ", ".join(lstr(x) for x in c) + "]" for c in released["alias_classes"]) + "]\n")
    o.append("def abi_released_layout : List (List Nat × Nat) := [" + ", ".join("(%s, %d)" % (lstr(k), v) for k, v in sorted(released["layout"].items())) + "]\n")
    o.append("end Xc.Gen\n")
    return "\n".join(o)

def generate(outdir, repo=cbuild.REPO, scratch=None, objs=None, with_abi=False, with_statics=False):
    own = scratch is None
    d = scratch or cbuild.mk_scratch("gen")
    try:
        if own or not os.path.exists(os.path.join(d, "crypt-hashes.h")):
            cbuild.gen_headers(d, repo)
        if objs is None:
            objs = cbuild.compile_lib(d, repo)
        v = collect(d, repo, objs=objs)
        conf = parse_hashes_conf(repo)
        mv = cbuild.make_vars(repo)
        enabled = [m for m in mv["hashes_enabled"].strip(",").split(",") if m]
        for m in enabled:
            if m not in METHODS: raise RuntimeError("unknown method in hashes_enabled: " + m)
        for r in conf:
            if r["name"] not in METHODS: raise RuntimeError("unknown method in hashes.conf: " + r["name"])
        os.makedirs(outdir, exist_ok=True)
        files = {
            "Consts.lean": emit_consts(v),
            "Alphabets.lean": emit_alphabets(v),
            "Table.lean": emit_table(v, conf, enabled),
            "Perms.lean": emit_perms(parse_perms(repo)),
            "Words.lean": emit_words({"W": {k: x for k, x in v["W"].items() if not k.startswith("des_")}}, parse_md_steps(repo)),
            "DesTables.lean": emit_des(v),
        }
        abi_ref = os.path.join(outdir, "Abi.lean")
        if with_abi or not os.path.exists(abi_ref):
            released = json.load(open(os.path.join(os.path.dirname(os.path.abspath(__file__)), "..", "ref", "released-4.4.33.json")))
            files["Abi.lean"] = emit_abi(abi_facts(d, repo), released)
        st_ref = os.path.join(outdir, "Statics.lean")
        if with_statics or not os.path.exists(st_ref):
            import statics
            files["Statics.lean"] = statics.emit_lean(d, repo)[0]
        for k, s in files.items():
            p = os.path.join(outdir, k)
            if not os.path.exists(p) or open(p).read() != s:
                open(p, "w").write(s)
        return sorted(files), v
    finally:
        if own: shutil.rmtree(d, ignore_errors=True)

if __name__ == "__main__":
    out = sys.argv[1] if len(sys.argv) > 1 else os.path.join(os.path.dirname(__file__), "../lean/Xc/Gen")
    names, _ = generate(out)
    print("generated", names)

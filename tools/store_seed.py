#!/usr/bin/env python3
"""store_seed.py <worktree> <id> <property> <wave> <needs-to-manifest>: keep a confirmed seeded change as /verif/seeded/<id>/
(patch.diff, demo.*, notes.md, confirm.json, demo outputs, meta.json).  tools/confirm_seed.sh must have run in the worktree first."""
import sys, os, json, shutil, subprocess
wt, sid, prop, wave, needs = sys.argv[1:6]
m = os.path.join(wt, "mutation"); d = os.path.join(os.path.dirname(os.path.dirname(os.path.abspath(__file__))), "seeded", sid)
os.makedirs(d, exist_ok=True)
c = json.load(open(os.path.join(m, "confirm.json")))
assert c["suite_pass"] == 47 and c["suite_fail"] == 0 and c["demo_exit_with_change"] != 0 and c["demo_exit_without_change"] == 0, c
for f in os.listdir(m):
    if f in ("patch.diff", "notes.md", "confirm.json", "demo_with.out", "demo_without.out") or (f.startswith("demo.") and f.split(".")[-1] in ("c", "sh", "py", "h")):
        shutil.copy(os.path.join(m, f), os.path.join(d, f))
files = [l[6:].strip() for l in open(os.path.join(d, "patch.diff")) if l.startswith("+++ b/")]
meta = {"id": sid, "breaks_property": prop, "files_changed": files, "needs_to_manifest": needs,
        "produced_by": "fresh sub-agent (%s wave) given only the property text, descriptions of the changes already known for it, and a scratch worktree %s (nothing from /verif)" % (wave, wt),
        "confirmed_by_me": {"how": "tools/confirm_seed.sh in the scratch worktree: make && make check with the change; demo (demo.c or demo.sh) with the change and without it (git apply -R)",
                            "suite_with_change": {"pass": c["suite_pass"], "fail": c["suite_fail"], "error": c["suite_error"], "skip": 1},
                            "demo_exit_with_change": c["demo_exit_with_change"], "demo_exit_without_change": c["demo_exit_without_change"]},
        "detected_by": None}
json.dump(meta, open(os.path.join(d, "meta.json"), "w"), indent=1)
r = subprocess.run(["git", "-C", "/repo", "apply", "--check", os.path.join(d, "patch.diff")], capture_output=True, text=True)
print(sid, "stored;", "applies to /repo" if r.returncode == 0 else "DOES NOT APPLY: " + r.stderr)

"""Primitive tables (DES, Blowfish, SHA constants...) extracted from the tree. Filled in as primitives are modelled."""
def generate(d, repo, v):
    return {}

#!/bin/bash
# run every seeded change against the check of the property it breaks (quick tier); summary on stdout
cd "$(dirname "$0")/.."
for d in seeded/*/; do
  id=$(basename $d)
  [ -f $d/patch.diff ] || continue
  out=$(./tools/seedrun.py $id 2>&1 | tail -n 1)
  case "$out" in
    *"exit 1 VIOLATION"*"no-failing-input-found"*) echo "$id: caught (no concrete input)";;
    *"exit 1 VIOLATION"*) echo "$id: caught (concrete failing input)";;
    *) echo "$id: MISSED  -- $out";;
  esac
done

#!/usr/bin/env python3
"""Writes /verif/MANIFEST.json from the table below (one place to edit)."""
import json, os
ROOT = os.path.join(os.path.dirname(os.path.abspath(__file__)), "..")
props = [json.loads(l) for l in open(os.path.join(ROOT, "properties.jsonl"))]

TB = "trusted: Lean 4.33 kernel (axioms propext/Classical.choice/Quot.sound only), tools/gen.py translators (probe programs that #include the tree's lib/*.c), the hand-written model tied to the code only by the harness/driver correspondence (differential testing), gcc/glibc. "

CLAIMS = {
 "C13": dict(
   text="Lean theorems C13_total/fit/err/writes/token_shape hold for every configuration, prefix, count, random input, nrbytes and every integer output_size; the model of crypt_gensalt_rn and the 16 writers is tied to the code by regenerated constants and an exhaustive grid correspondence (-2..256 x prefixes x counts x nrbytes).",
   note=TB + "Monotonicity / leading-part / 192-suffices clauses are decided by the oracle over the exhaustive grid, not yet as theorems.",
   technique="Lean 4 proof + exhaustive-grid model/implementation correspondence", ref="DESIGN.md §6 C13"),
 "C18": dict(
   text="Lean theorems characterise crypt_checksalt for every string and any dispatch table (INVALID iff NULL/empty/bad character/unrecognised; OK iff strong; LEGACY otherwise; tag-only), decide the strong set, prefix-freeness (first match = unique match) and the preferred method over the table regenerated from the tree; correspondence and an independent documented-rule classifier run over every string of length <=2 (quick) / <=3 (thorough).",
   note=TB + "The table is extracted from the compiled hash_algorithms[]; the classifier oracle is written from crypt(5)/the property text.",
   technique="Lean 4 proof (decide over generated table + general lemmas) + exhaustive short-string correspondence", ref="DESIGN.md §6 C18"),
 "C05": dict(
   text="Lean theorems over the API state machine, from an ARBITRARY prior object state and for any digests/configuration: NULL/long/ill-charactered/unknown requests fail (C05_reject_*), every failure has errno EINVAL or ERANGE, crypt_rn returns NULL and crypt_r the token, output holds exactly the '*0'/'*1' token (truncated for sizes 2/1, untouched for sizes <= 0), the token differs from the setting and is itself rejected, and no well-formed earlier hash survives a failing call (C05_no_stale). Correspondence + fail-closed oracle over a byte-mutation stream of every method's settings, invalid triples x sizes x prior states.",
   note=TB + "ENOMEM (allocation failure inside yescrypt) is covered by C15; errno for those paths is EINVAL in this library. Digest-dependent characters are compared by length/alphabet only for methods whose primitive is not yet executable in the model.",
   technique="Lean 4 proof (state machine, arbitrary pre-state) + mutation-stream correspondence", ref="DESIGN.md §6 C05"),
 "C07": dict(
   text="Lean theorem C07_history: for every finite history of crypt_r/crypt_rn/static crypt/crypt_gensalt/arbitrary overwrites over any number of shared objects, from every initial state, each call's (result, errno) equals a history-free function of its own arguments; C07_entry: the entry points agree. Correspondence over random histories with recurring requests, four pre-fill modes, 16 alignments; oracle: the same request never gets two different answers.",
   note=TB + "In the model the methods cannot read the object, so the content of the claim rests on the correspondence of histories (stale-memory reads in C would show as differing answers); crypt_ra is tied in by C14.",
   technique="Lean 4 proof by induction over histories + random-history correspondence", ref="DESIGN.md §6 C07"),
 "C01": dict(
   text="Lean theorems, for arbitrary digest functions: per-method front-end round trip (crypt_m p S = H implies crypt_m p H = H) and hash-part irrelevance (H = S' ++ digest and S' ++ ANY text gives H) for md5crypt, sha256crypt, sha512crypt, sha1crypt, NT, descrypt, bsdicrypt, bcrypt ($2a/$2b/$2x/$2y), yescrypt ($y$, the default method; any text free of '$' may follow the salt's '$'), scrypt ($7$, incl. verify_salt on the result), sunmd5 (every spelling of the salt's end), gost-yescrypt ($gy$: shape of the inner result, decode64 . encode64 = id, length bound for the wrapper's size pre-check) and bigcrypt (round trips) - all 16 methods; C01_roundtrip lifts them to the API level (length check, character filter, dispatch to the same table row) for every dispatch table that is TableOk, which C19 decides for all 65 536 configurations (C19_roundtrip_every_config); every result passes the generic setting filter. Model of all 16 front-ends with full-output correspondence (every primitive is executable in Lean); implementation oracle re-hashes every success with its result and with a setting whose hash portion is random.",
   note=TB + "The hash-part clause (anything may follow the salt) is proved for ten methods; for scrypt, sunmd5, gost-yescrypt and bigcrypt only the round trip itself is a theorem and the random-hash-portion clause rests on the oracle and the exact correspondence.",
   technique="Lean 4 proof (all 16 methods at API level, all configurations) + exact model/implementation correspondence + re-hash oracle", ref="DESIGN.md §6 C01"),
 "C06": dict(
   text="Lean theorem C06_safe for all 16 methods and any digests of the right length: a successful result is passwd-safe printable ASCII, non-empty, shorter than CRYPT_OUTPUT_SIZE, never starts with '*'; alphabets and fixed digest lengths decided over the tables generated from the tree; an independent per-method recogniser written from crypt(5) runs over the stream, every result goes back through crypt_checksalt and crypt_gensalt.",
   note=TB + "Field-structure theorems per method are partial (lengths/alphabets proved, exact decomposition checked by the recogniser).",
   technique="Lean 4 proof + recogniser oracle over grammar-shaped stream", ref="DESIGN.md §6 C06"),
 "C10": dict(
   text="Lean theorems: the three gensalt entry points coincide, NULL selects the default prefix, the method is chosen by the leading tag only, results fit; C10_accept_all (method level, arbitrary digests, every count / random input / nrbytes / output size, all sixteen methods): what a method's gensalt writer produces is accepted by the same method's front-end for every phrase, and the hash begins with the generated setting (yescrypt family: provided the KDF finds its memory - the generated parameters always pass its sanity checks; bigcrypt in a build without descrypt keeps the two salt characters but, by upstream's design, not the twelve filler characters); correspondence for all prefixes x counts x nrbytes 0..256 x entry points; oracle feeds every generated setting to crypt_checksalt and crypt and checks the literal-prefix clause.",
   note=TB + "The lift of C10_accept_all from the method level to crypt_gensalt_rn/crypt (dispatch of the generated setting back to the same table row) is by correspondence and oracle; bcrypt needs its run-time self-test to pass and the yescrypt family its memory (both hypotheses of the theorem).",
   technique="Lean 4 proof (acceptance for all 16 methods) + gensalt->checksalt->crypt oracle", ref="DESIGN.md §6 C10"),
 "C11": dict(
   text="Lean theorems for the cost each writer encodes (sha clamp, SunMD5 floor and no 32-bit wrap, sha1crypt window, bsdicrypt odd/<=2^24-1, fixed-cost and $2x$ rejections, bcrypt / yescrypt / gost-yescrypt / scrypt range rejections) and, end to end, for the cost crypt APPLIES to a generated setting: yescrypt and gost-yescrypt run the KDF with N = 2^(c+9), r = 8 (c < 3) or N = 2^(c+7), r = 32, p = 1; scrypt with N = 2^(c+7), r = 32, p = 1; sunmd5 with 4096 + the printed count; sha256/512crypt with the documented clamp - read back by the method's own parser; an independent decoder written from crypt(5) checks the documented function of count for 6k counts x 15 prefixes.",
   note=TB + "End-to-end (applied-cost) theorems exist for the yescrypt family, sunmd5 and sha256/512crypt; for bcrypt, bsdicrypt and sha1crypt the writer-level theorem plus the acceptance theorem of C10 and the decoder oracle stand in.",
   technique="Lean 4 proof (partial) + independent cost decoder", ref="DESIGN.md §6 C11"),
 "C12": dict(
   text="Lean theorems: too-short random input gives EINVAL for every salted writer, the OS-entropy request size from the generated dispatch table is sufficient for every method, the 3-byte -> 4-character packer is injective; for yescrypt, gost-yescrypt and scrypt a generated setting determines the min(nrbytes,64) >= 16 random bytes it was made from, and yescrypt_r's parser hands exactly those bytes to the KDF; oracle flips every bit of the consumed window (must change the salt) and bits outside (must not), checks minimum/standard salt sizes and that two NULL-rbytes calls differ.",
   note=TB + "The OS CSPRNG is a parameter of the model; whole-writer injectivity is proved for the yescrypt family and for the packer; for the other writers it is by the bit-flip oracle.",
   technique="Lean 4 proof (partial) + bit-flip oracle", ref="DESIGN.md §6 C12"),
 "C16": dict(
   text="Lean theorem (generic Merkle-Damgard context): for every message and every chunking, final(update*(init)) equals the published one-shot definition; instantiated for MD4, MD5, SHA-1, SHA-256, SHA-512; Streebog-256/512 through Init/Update/Final equal their one-shot definition for every chunking (C16_streebog256/512_streaming); HMAC built from streaming calls is RFC 2104; padding yields whole blocks. Compression functions and constants come from the tree; correspondence + hashlib/RFC oracles over lengths 0..1100, all split points, alignments, HMAC keys 0..200, PBKDF2 grids.",
   note=TB + "Streebog's compression (g_N over the tree's Ax/C tables) is tied to the standard by an independent exact-arithmetic implementation and the RFC 6986/7836 vectors, the PBKDF2 c=1 fast path by correspondence and hashlib only; counters are unbounded naturals in the model (the 2^61-byte carry code is not modelled).",
   technique="Lean 4 proof (streaming = one-shot) + exhaustive-split correspondence", ref="DESIGN.md §6 C16"),
 "C17": dict(
   text="Lean theorems (kernel evaluation): all ten DES lookup tables extracted from the tree equal the tables derived in Lean from the FIPS 46-3 permutations and S-boxes by the documented construction; key shifts as published. The table-driven model is compared with the code and with a bit-level FIPS 46-3 implementation (weight-1/63 keys and blocks, every salt bit, counts); setkey/encrypt/_r run through the freshly linked libcrypt.so.1 in random histories interleaved with crypt calls.",
   note=TB + "dec(enc(b)) = b and parity-independence are decided by the oracle, not yet by theorems (bit-vector reasoning without bv_decide).",
   technique="Lean 4 proof by kernel evaluation over generated tables + bit-level DES oracle", ref="DESIGN.md §6 C17"),
 "C19": dict(
   text="Lean model of gen-crypt-hashes-h (mkTable/mkDefault) reproduces the tree's generated table (mkTable_ok); theorem C19_all_configs: for every one of the 65 536 subsets (kernel evaluation, 64 parallel chunks, plus a proof that every subset is numbered) the table is prefix-free with empty prefixes last, contains exactly the enabled methods under their own prefixes and entry points, and the default prefix is the first enabled default-capable method, strong and dispatched to itself; every configuration's table is TableOk, hence the API round trip of C01 holds in every configuration (C19_roundtrip_every_config). Correspondence: real builds (perl generators + gcc + shared link with --no-undefined) of 6 (quick) / ~80 (thorough) configurations driven with a corpus and compared with the model under that configuration and with the full build.",
   note=TB + "That every subset compiles is established only for the built ones; perl's sort is assumed stable (ties between the two empty prefixes).",
   technique="Lean 4 proof by exhaustive kernel evaluation over all 2^16 configurations + real per-configuration builds", ref="DESIGN.md §6 C19"),
 "C20": dict(
   text="Lean theorems decided over tables regenerated from the tree (crypt.h probe, readelf of the freshly linked .so): struct layout 32768/0,384,768,1280,2047,2048 with no padding, all public constants equal to the released header's, every released (symbol, version, default) triple still exported, released alias classes preserved, compat names alias their modern counterparts. A client compiled against the released <crypt.h> runs against the fresh and the released libcrypt.so.1; results are compared with each other and with the model. The tree's version-map generator is additionally run for every compat flavour (yes, glibc, alt, owl, suse) x two symbol-version floors and compared, symbol by symbol, with an independent reading of libcrypt.map.in.",
   note=TB + "Released facts (libxcrypt 4.4.33, Debian) are committed under /verif/ref; calling conventions and libc ABI are the toolchain's.",
   technique="Lean 4 proof (decide over generated ABI tables) + old-header client differential run", ref="DESIGN.md §6 C20"),
 "C14": dict(
   text="Lean theorems over an abstract heap with an arbitrary allocator answer: one crypt_ra call from any prior pair either leaves the pair untouched (no growth needed / allocation failed: NULL, ENOMEM) or makes *data a live block of *size = sizeof(struct crypt_data) bytes holding a fresh zeroed object; an undersized block with a truthful positive size is fully erased before realloc; the result of the grown call is the pure answer; at most one request is issued. Correspondence with a malloc/realloc/free ledger (-Wl,--wrap) over random histories of caller resets (NULL, valid, too small, negative size, larger), frees, succeeding/failing requests and injected allocation failures.",
   note=TB + "realloc moving or not moving the block is abstracted (both count as 'set'); with a negative recorded size the library cannot know how much to erase, so the erase clause is stated for 0 < *size < sizeof.",
   technique="Lean 4 proof (state machine with allocator oracle) + ledger correspondence over random histories", ref="DESIGN.md §6 C14"),
 "C15": dict(
   text="Lean theorems: every hashing call issues 0 or exactly 2 allocator/mapper requests (mmap + munmap, yescrypt family only), crypt_ra at most one; a failed crypt_ra request leaves pair, ledger and result as documented. Fault enumeration: for every call of a corpus covering all methods and entry points each single request position fails in turn; ledger balance, errno, result, scratch wipe and the behaviour of the next call are checked on the implementation and compared with the model.",
   note=TB + "A failing munmap leaves a mapping the library no longer controls (reported as leak=1 by model and implementation alike, stated rather than excluded); the >=32 MiB huge-page retry (two requests per region) is not in the model: it is exercised by an implementation-only sweep (three settings x fault positions 1..4: process survives, ENOMEM, failure token, nothing left mapped) in both tiers.",
   technique="Lean 4 proof (partial) + exhaustive single-fault enumeration through --wrap", ref="DESIGN.md §6 C15"),
 "C04": dict(
   text="Lean theorems: every scratch structure fits the aligned scratch area (sizes from the tree), every successful result of every method is NUL-terminated inside the 384-byte output field (incl. the repaired sha1crypt bound), every crypt_gensalt_rn write is below max(output_size,0), too-small/negative crypt_rn sizes write only the fitting token and never touch the scratch areas. ASan+UBSan build: exact-size objects at all 16 alignments with canary application fields, exact-size argument blocks, grammar-shaped / mutated / 40-100 kB settings, phrases to 5000 bytes, integer boundary values, gensalt sizes and nrbytes grids; every sanitizer report is attributed to the operation that caused it.",
   note=TB + "Undefined behaviour that is not index arithmetic (aliasing, shifts, signed overflow) is outside the Lean model: it is searched for by the sanitizer run only (which found the negative-char shift repaired in a047975). Reads of the caller's strings are bounded in the model by the NUL-terminated-list representation, not by a separate theorem.",
   technique="Lean 4 proof (partial: index/length facts) + ASan/UBSan differential run", ref="DESIGN.md §6 C04"),
 "C08": dict(
   text="Lean theorems: (i) for every schedule of any number of threads whose steps read only immutable shared state and write only their own component, each thread's result equals its solo run (induction over schedules); (ii) over the call graph and static-storage write footprint regenerated from the clang AST of lib/*.c on every run: no function reachable from the seven re-entrant entry points (indirect method calls resolved to all methods) may write an object with static storage duration, the closure is closed, and the non-re-entrant variants do reach such writers. ThreadSanitizer build: 2..16 threads execute mixed call batches on their own objects; transcripts must equal the sequential ones.",
   note=TB + "The footprint analysis is syntactic (assignments, ++/--, address-of, arrays/structs passed to calls); libc (arc4random_buf, malloc, mmap) and the scheduler are trusted to be thread-safe.",
   technique="Lean 4 proof (interleaving theorem + decide over AST-generated footprint) + TSan run", ref="DESIGN.md §6 C08"),
 "C09": dict(
   text="Lean theorems over the API state machine from an arbitrary prior object: after crypt_r/crypt_rn the scratch areas (internal, reserved, initialized) are all zero iff the request got past validation (characterised exactly), otherwise untouched; too-small sizes never touch them. Harness: every byte of the object is inspected after each call of random histories over pre-filled objects (zero predicate, unchanged predicate, passphrase search in 6 encodings), digest/HMAC contexts after final, crypt_ra's erase-before-realloc through the ledger.",
   note=TB + "The stack clause depends on compiler frame layout and is not modelled; a poisoned-stack scan runs in the thorough tier as a search aid only. crypt_gensalt's entropy buffer is a stack object (same limitation).",
   technique="Lean 4 proof (object clause) + full-object inspection after every call", ref="DESIGN.md §6 C09"),
 "C02": dict(
   text="Every primitive is executable in the Lean model (constants, S-boxes, step schedules, output permutations generated from the tree) and the full hash string is compared with the implementation for all 16 methods; Lean theorems tie the call-by-call (streaming) cores to the published one-shot formulations; each hash is additionally compared with independent Python implementations written from the public specifications (md5crypt, sha256/512crypt, SunMD5, sha1crypt, NT, descrypt, bigcrypt, bsdicrypt via a bit-level FIPS DES, scrypt via hashlib), with openssl passwd and with the released libxcrypt 4.4.33 for all methods.",
   note=TB + "For bcrypt, yescrypt and gost-yescrypt the 'specification' is the Lean model itself validated cross-release (no independent specification is available in the sandbox); Model = Spec theorems exist for the digest-based cores, the rest is by correspondence.",
   technique="Lean 4 model + proof (partial) with exact correspondence and independent-implementation oracles", ref="DESIGN.md §6 C02"),
 "C03": dict(
   text="Perturbation oracle on the implementation and the model (full outputs): every single-bit flip, truncation and extension inside the documented significant window changes the hash, flips outside it (bytes beyond 8/128/72, 8th bit for DES-based methods) do not, every salt character change changes the hash part; Lean theorems: the exact insignificant windows of descrypt; the digest encoders are injective (permEncode over the schedules regenerated from the tree, sha1/DES/bcrypt/yescrypt encoders, hex); the insignificant windows of bigcrypt (beyond 128 bytes) and bcrypt (beyond 72 bytes); reductions C03_<m>_reduction for all sixteen methods (md5crypt, sha256crypt, sha512crypt, sha1crypt, sunmd5, NT, descrypt, bsdicrypt, bcrypt, yescrypt, scrypt, gost-yescrypt, bigcrypt - the last one segment by segment): two phrases (with any two settings) that give the same hash used the same salt and cost, and the method's core function - arbitrary, only its output length is assumed - returned the same digest for both: a false accept is exactly a collision of the underlying construction.",
   note=TB + "Collision resistance of the primitives is a cryptographic assumption and is not provable; the theorems cover the structural part (what is and is not fed to the primitive, injective encodings, reduction to a collision); the bcrypt window theorem is about the model's BF_set_key, tied to crypt-bcrypt.c by the full-output correspondence.",
   technique="Lean 4 proof (reduction to collisions of the core function, all 16 methods; documented windows) + exhaustive-position perturbation oracle", ref="DESIGN.md §6 C03"),
}
NOT_YET = "check under construction in this round; not claimed yet"

def main():
    man = {"version": 1, "setup_cmd": "./verif.py setup",
           "hooks": {"guard": "XCRYPT_VERIF_HOOKS",
                     "enable": "no source hooks are needed: the harness links objects compiled from /repo/lib/*.c, defines __assert_fail itself and wraps arc4random_buf/malloc/realloc/free/mmap/munmap at link time (-Wl,--wrap)",
                     "baseline_off_cmd": "cd /repo && make check", "source_commits": [], "add_only": True},
           "engines": [{"name": "xcverif", "path": "verif.py", "serves_properties": sorted(CLAIMS),
                        "kind_free_text": "Lean 4 theorems over a generated + hand-written model; translators regenerate the generated part from /repo on every run; a C harness and a Lean driver run the same op file for the correspondence; per-property oracle searches the implementation for a failing input"}],
           "checks": [], "not_applicable": [],
           "notes": "fix: commits in /repo: 05a8488 (C13), 6db9970 (C12), 5081cef (C11), b269775 (C04), 2c336b0 (C01), a047975 (C04), 3edb8c7 (C06); see known_findings.json"}
    for p in props:
        i = p["id"]
        if i in CLAIMS:
            c = CLAIMS[i]
            man["checks"].append({"property_id": i, "quick_cmd": "./verif.py check %s --tier quick" % i,
                                  "thorough_cmd": "./verif.py check %s --tier thorough" % i,
                                  "evidence_file": "evidence/%s.json" % i, "replay_cmd_template": "./verif.py replay {path}",
                                  "engine": "xcverif",
                                  "level_claimed": {"category": "proof", "text": c["text"], "design_ref": c["ref"]},
                                  "level_note": c["note"], "technique": c["technique"]})
        else:
            man["not_applicable"].append({"property_id": i, "reason": NOT_YET})
    json.dump(man, open(os.path.join(ROOT, "MANIFEST.json"), "w"), indent=1)
    print("claimed:", sorted(CLAIMS))
if __name__ == "__main__":
    main()

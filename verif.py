#!/usr/bin/env python3
"""Runner for the libxcrypt Lean-4 verification machinery.

  ./verif.py setup                       build the Lean project (offline)
  ./verif.py check C13 [--tier quick|thorough]
  ./verif.py replay <file>

A check (DESIGN.md §3):
  1. rebuilds the C side from /repo's working tree in a scratch directory,
  2. regenerates lean/Xc/Gen from the tree and (re)builds the property's theorems,
     audits their axioms, greps for sorry/admit/native_decide...,
  3. runs the correspondence (C harness vs Lean driver on the same op file),
  4. runs the property's oracle on the implementation's own observations,
  5. writes evidence/<id>.json; prints VIOLATION / KNOWN-FINDING lines.
"""
import os, sys, json, time, shutil, subprocess, re, fcntl, argparse, random, importlib, traceback, glob, hashlib

ROOT = os.path.dirname(os.path.abspath(__file__))
sys.path.insert(0, os.path.join(ROOT, "tools"))
sys.path.insert(0, ROOT)
import cbuild, gen

LEAN = os.path.join(ROOT, "lean")
OUT = os.path.join(ROOT, "out")
ALLOWED_AXIOMS = {"propext", "Classical.choice", "Quot.sound"}
FORBIDDEN = re.compile(r"\bsorry\b|\badmit\b|^\s*axiom\s|native_decide|bv_decide|implemented_by|\bunsafe\s|maxHeartbeats\s+0\b")

TRUSTED_BASE = [
    "Lean 4.33.0 kernel (axioms allowed: propext, Classical.choice, Quot.sound; no native_decide/bv_decide/sorry)",
    "tools/gen.py translators: constants and tables are printed by probe programs that #include the tree's lib/*.c",
    "hand-written Lean model of control flow, tied to the code by the harness/driver correspondence (differential testing)",
    "gcc 12, glibc, perl generators of the tree (run on the working tree into a scratch directory)",
]

def log(*a):
    print("[verif]", *a, file=sys.stderr, flush=True)

class Violation:
    def __init__(self, kind, what, detail=None, failing_input=None, unproved=None):
        self.kind, self.what, self.detail = kind, what, detail or {}
        self.failing_input = failing_input
        self.unproved = unproved or []

class Run:
    def __init__(self, prop, tier, seed):
        self.prop, self.tier, self.seed = prop, tier, seed
        self.t0 = time.time()
        self.rng = random.Random((seed, prop).__repr__())
        self.scratch = cbuild.mk_scratch(prop)
        self.violations = []
        self.known = []
        self.cov = {"evaluations": 0, "distinct_nontrivial": 0, "samples": [], "rule": "",
                    "obligations": 0, "discharged": 0, "checker_cmd": "", "trusted_base": list(TRUSTED_BASE),
                    "correspondence": {}, "distribution": {}}
        self.assumptions = []
        self._objs = {}
        self._harness = {}
        self.lean_dir = None
        self.gen_changed = []
        self.proof_ok = None
        self.findings = json.load(open(os.path.join(ROOT, "known_findings.json"))) if os.path.exists(os.path.join(ROOT, "known_findings.json")) else {"findings": []}

    # ---------- C side ----------
    def c_prepare(self):
        if not os.path.exists(os.path.join(self.scratch, "crypt-hashes.h")):
            cbuild.gen_headers(self.scratch)

    def objs(self, variant="plain"):
        if variant in self._objs: return self._objs[variant]
        self.c_prepare()
        d = os.path.join(self.scratch, "v_" + variant); os.makedirs(d, exist_ok=True)
        for f in ["config.h", "crypt-hashes.h", "crypt.h", "crypt-symbol-vers.h", "xcrypt.h", "libcrypt.map"]:
            shutil.copy(os.path.join(self.scratch, f), d)
        cc, opt, extra = "gcc", ("-O1", "-g"), ()
        if variant == "asan":
            cc, opt = "clang-14", ("-O1", "-g", "-fsanitize=address,undefined", "-fno-sanitize-recover=undefined", "-fno-omit-frame-pointer")
        elif variant == "tsan":
            cc, opt = "clang-14", ("-O1", "-g", "-fsanitize=thread")
        elif variant == "O0":
            opt = ("-O0", "-g")
        self._objs[variant] = (d, cbuild.compile_lib(d, cc=cc, opt=opt, extra=extra), cc, opt)
        return self._objs[variant]

    def harness(self, variant="plain", src="harness.c", wraps=("arc4random_buf",)):
        key = (variant, src, wraps)
        if key in self._harness: return self._harness[key]
        d, objs, cc, opt = self.objs(variant)
        exe = os.path.join(d, os.path.splitext(src)[0] + "_" + "_".join(wraps)[:40])
        ld = ["-Wl,--wrap=" + w for w in wraps]
        extra = ["-DXC_HEAP"] if "malloc" in wraps else []
        cbuild.build_harness(d, os.path.join(ROOT, "harness", src), objs, exe, cc=cc, opt=opt, extra=extra, ldextra=ld)
        self._harness[key] = exe
        return exe

    def so_harness(self, header_dir=None):
        """the tree's library linked as libcrypt.so.1 with its generated version script + a harness linked against it"""
        if "so" in self._harness: return self._harness["so"]
        self.c_prepare()
        d = os.path.join(self.scratch, "v_so"); os.makedirs(d, exist_ok=True)
        for f in ["config.h", "crypt-hashes.h", "crypt.h", "crypt-symbol-vers.h", "xcrypt.h", "libcrypt.map"]:
            shutil.copy(os.path.join(self.scratch, f), d)
        objs = cbuild.compile_lib(d, pic=True)
        so = cbuild.link_so(d, objs)
        exe = os.path.join(d, "harness_so")
        inc = header_dir or d
        r = subprocess.run(["gcc", "-O1", "-g", "-DXC_SO", "-I" + inc, "-I" + os.path.join(ROOT, "harness"),
                            os.path.join(ROOT, "harness", "harness.c"), "-o", exe, so, "-ldl", "-lpthread",
                            "-Wl,-rpath," + d], text=True, capture_output=True)
        if r.returncode != 0: raise RuntimeError("so harness build failed: " + r.stderr[-3000:])
        self._harness["so"] = (exe, so)
        return exe, so

    def run_so(self, ops, timeout=3000):
        exe, so = self.so_harness()
        r = subprocess.run([exe], input="\n".join(ops) + "\n", text=True, capture_output=True, env=dict(os.environ, XC_SO_PATH=so), timeout=timeout)
        self.last_impl_stderr = r.stderr; self.last_impl_rc = r.returncode
        return r.stdout.splitlines()

    # ---------- Lean side ----------
    def lean_prepare(self):
        if self.lean_dir: return self.lean_dir
        gd = os.path.join(self.scratch, "Gen")
        d, objs, _, _ = self.objs("plain")
        names, self.genvals = gen.generate(gd, scratch=self.scratch, objs=objs, with_abi=getattr(self, "with_abi", False), with_statics=getattr(self, "with_statics", False))
        changed = []
        for opt in ("Abi.lean", "Statics.lean"):
            if opt not in names and os.path.exists(os.path.join(LEAN, "Xc", "Gen", opt)):
                shutil.copy(os.path.join(LEAN, "Xc", "Gen", opt), os.path.join(gd, opt))
        for n in names:
            ref = os.path.join(LEAN, "Xc", "Gen", n)
            if not os.path.exists(ref) or open(ref).read() != open(os.path.join(gd, n)).read():
                changed.append(n)
        self.gen_changed = changed
        if not changed:
            self.lean_dir = LEAN
        else:
            log("Gen differs from the reference build:", changed, "- rebuilding dependants in scratch")
            ld = os.path.join(self.scratch, "lean")
            with lean_lock():
                shutil.copytree(LEAN, ld, symlinks=True)
            for n in names:
                shutil.copy(os.path.join(gd, n), os.path.join(ld, "Xc", "Gen", n))
            self.lean_dir = ld
        return self.lean_dir

    def lake(self, targets, timeout=3000):
        ld = self.lean_prepare()
        cmd = ["lake", "build"] + targets
        if ld == LEAN:
            with lean_lock():
                r = subprocess.run(cmd, cwd=ld, text=True, capture_output=True, timeout=timeout)
        else:
            r = subprocess.run(cmd, cwd=ld, text=True, capture_output=True, timeout=timeout)
        return r.returncode == 0, r.stdout + r.stderr

    def driver(self):
        ok, out = self.lake(["xcdriver"])
        if not ok:
            return None, out
        return os.path.join(self.lean_dir, ".lake/build/bin/xcdriver"), out

    def prove(self, modules=None):
        """Build Xc.Thm.<prop>, audit axioms of every theorem in it, grep for forbidden constructs."""
        prop = self.prop
        mods = modules or ["Xc.Thm." + prop]
        ld = self.lean_prepare()
        thm_files = [os.path.join(ld, m.replace(".", "/") + ".lean") for m in mods]
        theorems = []
        for f, m in zip(thm_files, mods):
            src = open(f).read()
            ns = re.findall(r"^namespace\s+(\S+)", src, re.M)
            nsname = ns[0] if ns else ""
            for mm in re.finditer(r"^theorem\s+(\S+)", src, re.M):
                theorems.append(((nsname + "." if nsname else "") + mm.group(1), f, src[:mm.start()].count("\n") + 1))
        self.cov["obligations"] = len(theorems)
        self.cov["checker_cmd"] = "cd lean && lake build " + " ".join(mods) + " && lake env lean <audit: #print axioms for every theorem> ; grep sorry/admit/axiom/native_decide/bv_decide"
        ok, out = self.lake(mods)
        bad = []
        if not ok:
            # attribute error lines to theorems
            errs = re.findall(r"error: (\S+?\.lean):(\d+):\d+: (.*)", out)
            broken = set()
            for path, line, msg in errs:
                line = int(line)
                cands = [t for t in theorems if os.path.basename(t[1]) == os.path.basename(path) and t[2] <= line]
                if cands: broken.add(max(cands, key=lambda t: t[2])[0])
                else: broken.add(os.path.basename(path) + ":" + str(line))
            if not broken: broken.add("lake build " + " ".join(mods))
            bad = sorted(broken)
            self.proof_ok = False
            self.proof_log = out[-6000:]
            self.cov["discharged"] = 0
            return False, bad
        # forbidden constructs in the whole library
        hits = []
        for f in glob.glob(os.path.join(ld, "Xc", "**", "*.lean"), recursive=True):
            for i, line in enumerate(strip_comments(open(f).read()).splitlines(), 1):
                if FORBIDDEN.search(line):
                    hits.append(f"{os.path.relpath(f, ld)}:{i}: {line.strip()[:100]}")
        if hits:
            self.proof_ok = False
            self.cov["discharged"] = 0
            return False, ["forbidden construct: " + h for h in hits[:5]]
        # axiom audit
        audit = os.path.join(self.scratch, "Audit_%s.lean" % prop)
        with open(audit, "w") as fh:
            for m in mods: fh.write("import %s\n" % m)
            for t, _, _ in theorems: fh.write("#print axioms %s\n" % t)
        r = subprocess.run(["lake", "env", "lean", audit], cwd=ld, text=True, capture_output=True, timeout=1200)
        txt = r.stdout + r.stderr
        discharged = 0
        axioms_used = set()
        for t, _, _ in theorems:
            m = re.search(r"'%s' depends on axioms: \[(.*?)\]" % re.escape(t), txt, re.S)
            m2 = re.search(r"'%s' does not depend on any axioms" % re.escape(t), txt)
            if m2: discharged += 1; continue
            if not m:
                bad.append(t + " (not found by audit)"); continue
            ax = {a.strip() for a in m.group(1).replace("\n", " ").split(",")}
            axioms_used |= ax
            if ax <= ALLOWED_AXIOMS: discharged += 1
            else: bad.append(t + " uses axioms " + ",".join(sorted(ax - ALLOWED_AXIOMS)))
        self.cov["discharged"] = discharged
        self.cov["axioms_used"] = sorted(axioms_used)
        self.cov["theorems"] = [t for t, _, _ in theorems]
        nonvac = sum(len(re.findall(r"^example\b", open(f).read(), re.M)) for f in thm_files)
        self.cov["nonvacuity_examples"] = nonvac
        if self.tier == "thorough":
            for m in mods:
                rc = subprocess.run(["lake", "env", "leanchecker", m], cwd=ld, text=True, capture_output=True, timeout=3000)
                self.cov.setdefault("leanchecker", {})[m] = "ok" if rc.returncode == 0 else (rc.stdout + rc.stderr)[-500:]
                if rc.returncode != 0: bad.append("leanchecker rejects " + m)
        self.proof_ok = not bad
        return self.proof_ok, bad

    # ---------- correspondence ----------
    def run_pair(self, ops, variant="plain", src="harness.c", wraps=("arc4random_buf",), env=None, timeout=3000):
        """Run the same op lines through the harness and the driver; returns (impl_lines, model_lines)."""
        import uuid
        opf = os.path.join(self.scratch, "ops_%s.txt" % uuid.uuid4().hex[:12])
        with open(opf, "w") as fh:
            fh.write("\n".join(ops) + "\n")
        exe = self.harness(variant, src, wraps)
        drv, out = self.driver()
        if drv is None:
            raise ModelBuildError(out)
        e = dict(os.environ, ASAN_OPTIONS="detect_leaks=0:abort_on_error=0:exitcode=77", UBSAN_OPTIONS="print_stacktrace=1")
        if env: e.update(env)
        with open(opf) as fi:
            pi = subprocess.Popen([exe], stdin=fi, stdout=subprocess.PIPE, stderr=subprocess.PIPE, text=True, env=e)
            with open(opf) as fm:
                pm = subprocess.Popen([drv], stdin=fm, stdout=subprocess.PIPE, stderr=subprocess.PIPE, text=True)
                mo, me = pm.communicate(timeout=timeout)
            io, ie = pi.communicate(timeout=timeout)
        self.last_impl_stderr = ie
        self.last_impl_rc = pi.returncode
        if "ASSERT in call" in ie:
            if not hasattr(self, "asserts"): self.asserts = []
            self.asserts += [l for l in ie.splitlines() if "ASSERT in call" in l][:20]
        il, ml = io.splitlines(), mo.splitlines()
        if len(il) < len(ops):
            # the implementation side died (sanitizer report, crash): name the operation it was executing
            if not hasattr(self, "crashes"): self.crashes = []
            self.crashes.append({"op": ops[len(il)], "rc": pi.returncode, "stderr": (ie if len(ie) <= 6000 else ie[:3000] + "\n[...]\n" + ie[-3000:])})
            il = il + ["crashed rc=%s" % pi.returncode] * (len(ops) - len(il))
        return il, ml, opf

    def run_pair_sharded(self, groups, nshards=16, **kw):
        """groups: list of self-contained op lists (no state shared between groups).  They are distributed over
        `nshards` harness/driver process pairs running concurrently; outputs come back in the original order."""
        import concurrent.futures
        exe = self.harness(kw.get("variant", "plain"), kw.get("src", "harness.c"), kw.get("wraps", ("arc4random_buf",)))
        drv, out = self.driver()
        if drv is None: raise ModelBuildError(out)
        # greedy balance by op count
        shards = [[] for _ in range(nshards)]
        sizes = [0] * nshards
        for gi, g in sorted(enumerate(groups), key=lambda x: -len(x[1])):
            k = sizes.index(min(sizes)); shards[k].append(gi); sizes[k] += len(g)
        def one(k):
            ops = [op for gi in shards[k] for op in groups[gi]]
            if not ops: return [], []
            il, ml, _ = self.run_pair(ops, **kw)
            return il, ml
        with concurrent.futures.ThreadPoolExecutor(nshards) as ex:
            res = list(ex.map(one, range(nshards)))
        il_by, ml_by = {}, {}
        for k in range(nshards):
            il, ml = res[k]; pos = 0
            for gi in shards[k]:
                n = len(groups[gi])
                il_by[gi] = il[pos:pos + n]; ml_by[gi] = ml[pos:pos + n]; pos += n
        ops_all, il_all, ml_all = [], [], []
        for gi, g in enumerate(groups):
            ops_all += g; il_all += il_by.get(gi, []); ml_all += ml_by.get(gi, [])
        return ops_all, il_all, ml_all

    def run_impl(self, ops, variant="plain", src="harness.c", wraps=("arc4random_buf",), env=None, timeout=3000):
        exe = self.harness(variant, src, wraps)
        e = dict(os.environ, ASAN_OPTIONS="detect_leaks=0:abort_on_error=0:exitcode=77", UBSAN_OPTIONS="print_stacktrace=1")
        if env: e.update(env)
        r = subprocess.run([exe], input="\n".join(ops) + "\n", text=True, capture_output=True, env=e, timeout=timeout)
        self.last_impl_stderr = r.stderr; self.last_impl_rc = r.returncode
        return r.stdout.splitlines()

    def run_model(self, ops, timeout=3000):
        drv, out = self.driver()
        if drv is None: raise ModelBuildError(out)
        r = subprocess.run([drv], input="\n".join(ops) + "\n", text=True, capture_output=True, timeout=timeout)
        return r.stdout.splitlines()

    # ---------- results ----------
    def add_violation(self, v):
        # known finding?
        for f in self.findings.get("findings", []):
            if f.get("status") == "open" and f["property"] == self.prop and v.failing_input is not None:
                if finding_matches(f, v):
                    if f["id"] not in [k["id"] for k in self.known]:
                        self.known.append(f)
                    return
        self.violations.append(v)

    def finish(self):
        os.makedirs(os.path.join(OUT, "replay"), exist_ok=True)
        os.makedirs(os.path.join(ROOT, "evidence"), exist_ok=True)
        for f in self.known:
            print("KNOWN-FINDING: property=%s %s" % (self.prop, f["what"]))
        rc = 0
        # group: concrete failing inputs first
        concrete = [v for v in self.violations if v.failing_input is not None]
        abstract = [v for v in self.violations if v.failing_input is None]
        report = concrete[:3] if concrete else abstract[:3]
        for i, v in enumerate(report):
            path = os.path.join(OUT, "replay", "%s_%s_%d_%d.json" % (self.prop, self.tier, self.seed, i))
            json.dump({"property": self.prop, "tier": self.tier, "seed": self.seed, "kind": v.kind, "what": v.what,
                       "failing_input": v.failing_input, "unproved": v.unproved, "detail": v.detail,
                       "gen_changed": self.gen_changed}, open(path, "w"), indent=1)
            tail = "" if v.failing_input is not None else " no-failing-input-found"
            print("VIOLATION property=%s replay=%s kind=%s %s%s" % (self.prop, path, v.kind, v.what[:200].replace("\n", " "), tail))
            rc = 1
        ev = {"property_id": self.prop, "tier": self.tier, "seed": self.seed, "level": "proof",
              "coverage": self.cov, "assumptions": self.assumptions, "wall_s": round(time.time() - self.t0, 2),
              "violations": len(self.violations), "known_findings": [f["id"] for f in self.known],
              "gen_changed": self.gen_changed}
        if not self.cov["samples"]: self.cov["samples"] = ["(no samples recorded)"]
        # VERIF_EVIDENCE_DIR: only tools/seedrun.py sets it, so that runs against a seeded change do not
        # overwrite the evidence of the real tree
        evdir = os.environ.get("VERIF_EVIDENCE_DIR") or os.path.join(ROOT, "evidence")
        os.makedirs(evdir, exist_ok=True)
        json.dump(ev, open(os.path.join(evdir, self.prop + ".json"), "w"), indent=1)
        shutil.rmtree(self.scratch, ignore_errors=True)
        return rc

class ModelBuildError(Exception):
    pass

def finding_matches(f, v):
    m = f.get("match", {})
    fi = v.failing_input if isinstance(v.failing_input, dict) else {}
    for k, pat in m.items():
        if k == "kind":
            if not re.fullmatch(pat, v.kind): return False
        else:
            if not re.fullmatch(pat, str(fi.get(k, ""))): return False
    return True

def strip_comments(src):
    src = re.sub(r"/-.*?-/", lambda m: "\n" * m.group(0).count("\n"), src, flags=re.S)
    src = re.sub(r"--.*", "", src)
    return src

class lean_lock:
    def __enter__(self):
        os.makedirs(os.path.join(LEAN, ".lake"), exist_ok=True)
        self.fh = open(os.path.join(LEAN, ".lake", "verif.lock"), "w")
        fcntl.flock(self.fh, fcntl.LOCK_EX)
    def __exit__(self, *a):
        fcntl.flock(self.fh, fcntl.LOCK_UN); self.fh.close()

def cmd_setup():
    # regenerate the reference Gen from the tree as it is now, then build everything
    d = cbuild.mk_scratch("setup")
    try:
        gen.generate(os.path.join(LEAN, "Xc", "Gen"), scratch=None, with_abi=True, with_statics=True)
    finally:
        shutil.rmtree(d, ignore_errors=True)
    with lean_lock():
        r = subprocess.run(["lake", "build"], cwd=LEAN, text=True, capture_output=True)
    sys.stdout.write(r.stdout[-3000:] + r.stderr[-3000:])
    return r.returncode

def cmd_check(prop, tier, seed):
    R = Run(prop, tier, seed)
    try:
        mod = importlib.import_module("checks." + prop.lower())
        mod.run(R)
    except ModelBuildError as e:
        R.add_violation(Violation("model-build", "the Lean model no longer builds against the regenerated Gen files",
                                  detail={"log": str(e)[-4000:]}, unproved=["model build"]))
    except Exception as e:
        traceback.print_exc()
        R.add_violation(Violation("check-error", "check crashed: %r" % (e,), detail={"trace": traceback.format_exc()[-4000:]},
                                  unproved=["check infrastructure"]))
    return R.finish()

def cmd_replay(path):
    j = json.load(open(path))
    R = Run(j["property"], j.get("tier", "quick"), j.get("seed", 1))
    try:
        mod = importlib.import_module("checks." + j["property"].lower())
        if hasattr(mod, "replay"):
            rc = mod.replay(R, j)
        else:
            print("no replay handler for", j["property"]); rc = 2
    finally:
        shutil.rmtree(R.scratch, ignore_errors=True)
    return rc

def main():
    ap = argparse.ArgumentParser()
    sub = ap.add_subparsers(dest="cmd")
    sub.add_parser("setup")
    c = sub.add_parser("check"); c.add_argument("prop"); c.add_argument("--tier", default=os.environ.get("VERIF_TIER", "quick"))
    r = sub.add_parser("replay"); r.add_argument("path")
    a = ap.parse_args()
    seed = int(os.environ.get("VERIF_SEED", "1"))
    if a.cmd == "setup": sys.exit(cmd_setup())
    if a.cmd == "check": sys.exit(cmd_check(a.prop, a.tier, seed))
    if a.cmd == "replay": sys.exit(cmd_replay(a.path))
    ap.print_help(); sys.exit(2)

if __name__ == "__main__":
    main()
